#!/bin/bash
# dev helper: seedrun.sh <ID> <N> [check ids...]
#  1. confirms the sub-agent's claims in the scratch worktree /tmp/seed/<ID> (tests pass with the change; demo fails with / passes without)
#  2. applies the patch to /repo, runs the given quick checks (default: the property's own), reverts
set -u
export VERIF_EVIDENCE_DIR=/verif/harness/target/scratch-evidence  # never overwrite committed evidence with results from a broken tree
ID=$1; N=$2; shift 2
CHECKS="${*:-$ID}"
ROOT=${SEEDROOT:-/tmp/seed}; OUT=$ROOT/out/$ID; WT=$ROOT/$ID
FEAT=""
grep -qiE "features?[^a-z]*(serde|uuid|storage-event|derive)|--features" $OUT/demo$N.rs 2>/dev/null && FEAT='--features serde,uuid_entity,storage-event-control,derive'
grep -q "specs_derive\|specs-derive\|derive(ConvertSaveload\|derive(Component" $OUT/demo$N.rs 2>/dev/null && FEAT='--features serde,uuid_entity,storage-event-control,derive'
DEMOFLAGS=""
grep -q "specs_verif" $OUT/demo$N.rs 2>/dev/null && DEMOFLAGS="--cfg specs_verif"
if [ -z "${SEED_SKIP_CONFIRM:-}" ]; then
cd $WT || exit 2
git checkout -q -- . ; rm -f tests/seed_demo.rs
git apply $OUT/patch$N.diff || { echo "CONFIRM: patch does not apply"; exit 2; }
T=$(cargo test --workspace --offline 2>&1 | grep -E "^test result" | awk '{p+=$4; f+=$6} END {print p" passed "f" failed"}')
echo "CONFIRM: existing suite with change: $T"
cp $OUT/demo$N.rs tests/seed_demo.rs
if RUSTFLAGS="$DEMOFLAGS" cargo test --offline $FEAT --test seed_demo >$OUT/demo$N.with.log 2>&1; then echo "CONFIRM: demo PASSES with change (BAD)"; else echo "CONFIRM: demo fails with change (ok): $(grep -E 'panicked|test result|error\[' $OUT/demo$N.with.log | head -2 | tr '\n' ' ' | cut -c1-200)"; fi
git apply -R $OUT/patch$N.diff
if RUSTFLAGS="$DEMOFLAGS" cargo test --offline $FEAT --test seed_demo >$OUT/demo$N.without.log 2>&1; then echo "CONFIRM: demo passes without change (ok)"; else echo "CONFIRM: demo FAILS without change (BAD)"; fi
rm -f tests/seed_demo.rs; git checkout -q -- .
fi
cd /repo || exit 2
git diff --quiet || { echo "repo dirty"; exit 2; }
git apply $OUT/patch$N.diff || { echo "patch does not apply to /repo"; exit 2; }
for c in $CHECKS; do
  /verif/verif.sh $c quick 2>/dev/null | grep -E "VIOLATION|INCONCLUSIVE|evaluations=|^C[0-9]+ /" | cut -c1-260 | sort | uniq -c | sort -rn | head -4
done
git checkout -q -- .

