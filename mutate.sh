#!/bin/bash
# usage: mutate.sh <file> <python-regex-old> <new> -- <ID> [<ID>...]   (dev helper: apply a one-off mutation to /repo, run quick checks, revert)
set -u
export VERIF_EVIDENCE_DIR=/verif/harness/target/scratch-evidence  # never overwrite committed evidence with results from a broken tree
FILE="$1"; OLD="$2"; NEW="$3"; shift 4
cd /repo || exit 2
git diff --quiet || { echo "repo dirty"; exit 2; }
python3 - "$FILE" "$OLD" "$NEW" <<'PY'
import sys,re
f,old,new=sys.argv[1:4]
s=open(f).read()
s2,n=re.subn(old,new,s,count=1,flags=re.S)
if n!=1: print("PATTERN NOT FOUND"); sys.exit(3)
open(f,'w').write(s2)
PY
[ $? -eq 0 ] || { git checkout -- .; exit 3; }
git diff --stat | tail -1
for id in "$@"; do
  /verif/verif.sh $id quick | grep -E "VIOLATION|INCONCLUSIVE|evaluations=" | sort | uniq -c | sort -rn | head -4
done
git checkout -- .
rm -rf /verif/replays
