#!/usr/bin/env python3
"""Regenerates the seeded-defect table in DESIGN.md (between the SEED-TABLE markers) from /verif/seeded/*/meta.json"""
import json, glob, os, re
rows = []
for d in sorted(glob.glob('/verif/seeded/*/')):
    name = os.path.basename(d.rstrip('/'))
    try:
        m = json.load(open(d + 'meta.json'))
    except Exception:
        continue
    cr = m.get('checks_run', {})
    det = cr.get('detected')
    other = cr.get('detected_by_other_property_check') or [x for x in cr.get('violations_reported_for', []) if x != m.get('property')]
    sig = ', '.join(s for s in cr.get('signatures', []) if not re.fullmatch(r'[0-9a-z]{1,2}|\d+', s))[:60]
    status = 'caught' if det else ('caught by ' + ','.join(other) if other else 'MISSED')
    if m.get('first_version_missed'):
        status += ' (after strengthening; first version missed it)'
    summ = (m.get('summary') or '').replace('\n', ' ').replace('|', '/')
    summ = summ[:170] + ('...' if len(summ) > 170 else '')
    rows.append(f"| {name} | {summ} | {status} | {sig} |")
table = "| seed | change (sub-agent's summary) | quick check of the property | oracle signature |\n|---|---|---|---|\n" + "\n".join(rows)
p = '/verif/DESIGN.md'
s = open(p).read()
b, e = '<!-- SEED-TABLE-BEGIN -->', '<!-- SEED-TABLE-END -->'
if b in s:
    s = s[:s.index(b) + len(b)] + "\n" + table + "\n" + s[s.index(e):]
    open(p, 'w').write(s)
print(len(rows), 'rows')
