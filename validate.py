#!/usr/bin/env python3-vt
import json, jsonschema, glob, sys
ok = True
jsonschema.validate(json.load(open('/verif/MANIFEST.json')), json.load(open('/root/.vp/MANIFEST.schema.json')))
print('MANIFEST valid')
sch = json.load(open('/root/.vp/EVIDENCE.schema.json'))
for f in sorted(glob.glob('/verif/evidence/*.json')):
    try:
        jsonschema.validate(json.load(open(f)), sch)
        e = json.load(open(f))
        print(f, 'valid', e['tier'], e['coverage']['evaluations'], e['coverage']['distinct_nontrivial'], 'viol', e.get('violations'))
    except Exception as ex:
        ok = False
        print(f, 'INVALID', str(ex)[:300])
sys.exit(0 if ok else 1)
