#![no_main]
#![allow(dead_code, unused_imports, unused_macros)]
#[path = "../../src/engine.rs"]
mod engine;
#[path = "../../src/fuzzdec.rs"]
mod fuzzdec;
#[path = "../../src/hist.rs"]
mod hist;
#[path = "../../src/stoseq.rs"]
mod stoseq;
#[path = "../../src/zoo.rs"]
mod zoo;

include!("common.rs");

libfuzzer_sys::fuzz_target!(|data: &[u8]| {
    // replace libfuzzer-sys's abort-on-panic hook: panics are caught and judged by the oracles
    static HOOK: std::sync::Once = std::sync::Once::new();
    HOOK.call_once(engine::install_panic_hook);
    let h = match fuzzdec::decode_history(data) {
        Some(h) => h,
        None => return,
    };
    let r = engine::guard("PANIC", || hist::run_history(&h, false).map(|x| x.0));
    match r {
        Ok(f) => record(&h, f.index_reuse > 0 || f.stale_access_occupied_with_comp > 0),
        Err(v) => {
            let mine = props();
            // a panic is attributed to the first property of the campaign, like in the proptest engine
            let prop = if v.prop == "PANIC" { mine.first().cloned().unwrap_or_default() } else { v.prop.clone() };
            if mine.contains(&prop) {
                let mut v = v;
                v.prop = prop;
                report("histories", &h, &v);
            }
            record(&h, false);
        }
    }
});
