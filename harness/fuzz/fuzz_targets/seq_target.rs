#![no_main]
#![allow(dead_code, unused_imports, unused_macros)]
#[path = "../../src/engine.rs"]
mod engine;
#[path = "../../src/fuzzdec.rs"]
mod fuzzdec;
#[path = "../../src/hist.rs"]
mod hist;
#[path = "../../src/stoseq.rs"]
mod stoseq;
#[path = "../../src/zoo.rs"]
mod zoo;

include!("common.rs");

libfuzzer_sys::fuzz_target!(|data: &[u8]| {
    // replace libfuzzer-sys's abort-on-panic hook: panics are caught and judged by the oracles
    static HOOK: std::sync::Once = std::sync::Once::new();
    HOOK.call_once(engine::install_panic_hook);
    let c = match fuzzdec::decode_seq(data) {
        Some(c) => c,
        None => return,
    };
    let ledger_only = props().first().map(|p| p == "C08").unwrap_or(false);
    let mode = stoseq::Mode { diff_tag: "C04", check_events: !ledger_only, fault_at: None, bomb: stoseq::Bomb::None, ledger_only, events_only: false };
    let r = engine::guard("PANIC", || stoseq::run_case_dyn(&c, &mode));
    match r {
        Ok(f) => record(&c, f.remove_or_drain_then_insert && f.distinct_indices >= 3),
        Err(v) => {
            let mine = props();
            let prop = if v.prop == "PANIC" { mine.first().cloned().unwrap_or_default() } else { v.prop.clone() };
            if mine.contains(&prop) {
                let mut v = v;
                v.prop = prop;
                report("sequences", &c, &v);
            }
            record(&c, false);
        }
    }
});
