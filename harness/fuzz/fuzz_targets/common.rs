// shared by the two fuzz targets (included with include!)
use std::collections::HashSet;
use std::hash::{Hash, Hasher};
use std::sync::Mutex;

static STATS: Mutex<Option<(u64, HashSet<u64>)>> = Mutex::new(None);

fn props() -> Vec<String> {
    std::env::var("VERIF_FUZZ_PROPS").unwrap_or_default().split(',').filter(|s| !s.is_empty()).map(|s| s.to_string()).collect()
}

fn record<T: Hash>(case: &T, nontrivial: bool) {
    let mut g = STATS.lock().unwrap();
    if g.is_none() {
        // multi-oracle interpreters prefer the violation of the campaign's first property
        engine::set_focus(props().first().map(|s| s.as_str()).unwrap_or(""));
    }
    let st = g.get_or_insert_with(|| (0, HashSet::new()));
    st.0 += 1;
    if nontrivial {
        let mut h = std::collections::hash_map::DefaultHasher::new();
        case.hash(&mut h);
        st.1.insert(h.finish());
    }
    let target: u64 = std::env::var("VERIF_FUZZ_RUNS").ok().and_then(|s| s.parse().ok()).unwrap_or(0);
    if st.0 % 20000 == 0 || st.0 == target || st.0 + 1 == target {
        dump(st);
    }
}

fn dump(st: &(u64, HashSet<u64>)) {
    if let Ok(p) = std::env::var("VERIF_FUZZ_STATS") {
        let hashes: Vec<String> = st.1.iter().map(|h| h.to_string()).collect();
        let _ = std::fs::write(p, format!("{{\"evaluations\": {}, \"distinct_nontrivial\": {}, \"hashes\": [{}]}}", st.0, st.1.len(), hashes.join(",")));
    }
}

fn report<T: serde::Serialize>(check: &str, case: &T, v: &engine::Violation) -> ! {
    if let Some(st) = STATS.lock().unwrap().as_ref() {
        dump(st);
    }
    let body = serde_json::json!({
        "property": v.prop, "check": check, "engine": "libfuzzer", "signature": v.signature, "message": v.msg, "case": case,
    });
    if let Ok(p) = std::env::var("VERIF_FUZZ_REPLAY") {
        let _ = std::fs::write(p, serde_json::to_string_pretty(&body).unwrap());
    }
    eprintln!("FUZZ-VIOLATION property={} [{}] {}", v.prop, v.signature, v.msg);
    std::process::abort()
}
