//! C18: derive macros (`ConvertSaveload`, `Component`) behave as field-wise
//! definitions. Generated programs: a proptest strategy produces type
//! definitions, the harness prints them as a crate (together with a
//! hand-expanded reference conversion per type), compiles it against the
//! working tree's specs + specs-derive, runs it and reads per-type verdicts.

use std::{
    fmt::Write as _,
    path::{Path, PathBuf},
    process::Command,
};

use proptest::prelude::*;
use serde::{Deserialize, Serialize};
use serde_json::Value;

use crate::engine::{parse_case, Failure, Property, ShardCtx, ShardResult, Stats, SubCheck, Tier, Verdict, Violation, VERIF_DIR};

#[derive(Clone, Copy, Debug, Serialize, Deserialize, Hash, PartialEq, Eq)]
pub enum FT {
    Entity,
    U8,
    I64,
    Str,
    OptU16,
    VecU32,
    TupU8Bool,
    ArrU8,
    Derived(u16),
    Generic,
    OpaqueSkip,
    PlainSkip,
    /// converted fields carrying a forwarded attribute: #[convert_save_load_attr(serde(rename = ".."))]
    EntityRenamed,
    U8Renamed,
}

#[derive(Clone, Debug, Serialize, Deserialize, Hash, PartialEq, Eq)]
pub enum Var {
    Unit,
    Tuple(Vec<FT>),
    Named(Vec<FT>),
}

#[derive(Clone, Debug, Serialize, Deserialize, Hash, PartialEq, Eq)]
pub enum Shape {
    Named(Vec<FT>),
    Tuple(Vec<FT>),
    Enum(Vec<Var>),
}

#[derive(Clone, Debug, Serialize, Deserialize, Hash, PartialEq, Eq)]
pub struct TypeDef {
    pub shape: Shape,
    pub generic: bool,
}

#[derive(Clone, Debug, Serialize, Deserialize, Hash, PartialEq, Eq)]
pub struct CompDef {
    /// 0 Vec, 1 DenseVec, 2 HashMap, 3 BTree, 4 DefaultVec, 5 Null, 6 Flagged (default inner), 7 Flagged<Self, VecStorage<Self>>
    pub storage: u8,
    /// 0 no attribute, 1 #[storage(K)], 2 #[storage(K<Self>)], 3 path-qualified K, 4 path-qualified K<Self>
    pub form: u8,
    /// 0 tuple struct, 1 named struct, 2 generic tuple struct
    pub shape: u8,
    /// other attributes / doc comments placed after the storage attribute
    pub trailing_attrs: u8,
}

#[derive(Clone, Debug, Serialize, Deserialize, Hash, PartialEq, Eq)]
pub struct Program {
    pub types: Vec<TypeDef>,
    pub comps: Vec<CompDef>,
    pub seed: u64,
    pub values: u16,
}

// ---------------------------------------------------------------------------
// generators

fn ft() -> impl Strategy<Value = FT> {
    prop_oneof![
        6 => Just(FT::Entity),
        2 => Just(FT::U8),
        1 => Just(FT::I64),
        1 => Just(FT::Str),
        1 => Just(FT::OptU16),
        1 => Just(FT::VecU32),
        1 => Just(FT::TupU8Bool),
        1 => Just(FT::ArrU8),
        4 => any::<u16>().prop_map(FT::Derived),
        2 => Just(FT::Generic),
        1 => Just(FT::OpaqueSkip),
        1 => Just(FT::PlainSkip),
        2 => Just(FT::EntityRenamed),
        1 => Just(FT::U8Renamed),
    ]
}

fn fields(min: usize, max: usize) -> impl Strategy<Value = Vec<FT>> {
    proptest::collection::vec(ft(), min..=max)
}

fn var() -> impl Strategy<Value = Var> {
    prop_oneof![
        1 => Just(Var::Unit),
        4 => fields(1, 3).prop_map(Var::Tuple),
        4 => fields(1, 3).prop_map(Var::Named),
        // wide variants: field positions with two digits
        1 => fields(9, 13).prop_map(Var::Tuple),
        1 => fields(9, 13).prop_map(Var::Named),
    ]
}

fn type_def() -> impl Strategy<Value = TypeDef> {
    (
        prop_oneof![
            6 => fields(1, 6).prop_map(Shape::Named),
            6 => fields(1, 6).prop_map(Shape::Tuple),
            1 => fields(9, 13).prop_map(Shape::Named),
            1 => fields(9, 13).prop_map(Shape::Tuple),
            7 => proptest::collection::vec(var(), 1..=5).prop_map(Shape::Enum),
        ],
        prop::bool::weighted(0.2),
    )
        .prop_map(|(shape, generic)| TypeDef { shape, generic })
}

/// Name of field k of a named struct: the second field is called `ids` (a name generated code may use itself).
fn nf(k: usize) -> String {
    if k == 1 {
        "ids".to_string()
    } else {
        format!("f{}", k)
    }
}

/// Every third variant (of any kind) carries a forwarded serde attribute of its own.
fn variant_attr(k: usize) -> String {
    if k % 3 == 1 {
        format!("#[convert_save_load_attr(serde(rename = \"w{}\"))] ", k)
    } else {
        String::new()
    }
}

/// Name of variant k in the serialised form.
fn variant_name(k: usize) -> String {
    if k % 3 == 1 {
        format!("w{}", k)
    } else {
        format!("V{}", k)
    }
}

fn comp_def() -> impl Strategy<Value = CompDef> {
    (0u8..8, 0u8..5, 0u8..3, 0u8..4).prop_map(|(storage, form, shape, trailing_attrs)| CompDef { storage, form, shape, trailing_attrs })
}

pub fn program(n_types: usize, n_comps: usize, values: u16) -> impl Strategy<Value = Program> {
    (
        proptest::collection::vec(type_def(), n_types),
        proptest::collection::vec(comp_def(), n_comps),
        any::<u64>(),
    )
        .prop_map(move |(types, comps, seed)| Program { types, comps, seed, values })
}

// ---------------------------------------------------------------------------
// normalisation: resolve Derived / Generic / skip placement into what the grammar supports

#[derive(Clone, Debug)]
struct NType {
    shape: Shape,
    generic: bool,
    depth: u32,
}

fn normalise(p: &Program) -> Vec<NType> {
    let mut out: Vec<NType> = vec![];
    for (i, t) in p.types.iter().enumerate() {
        let mut depth = 1;
        let mut uses_generic = false;
        let mut fix = |f: &FT, named: bool, out: &Vec<NType>, depth: &mut u32, uses_generic: &mut bool| -> FT {
            match f {
                FT::Derived(k) => {
                    if i == 0 {
                        return FT::U8;
                    }
                    let j = (*k as usize) % i;
                    if out[j].generic || out[j].depth >= 3 {
                        FT::I64
                    } else {
                        *depth = (*depth).max(out[j].depth + 1);
                        FT::Derived(j as u16)
                    }
                }
                FT::Generic => {
                    if t.generic {
                        *uses_generic = true;
                        FT::Generic
                    } else {
                        FT::Entity
                    }
                }
                // a skipped non-serialisable field is only emitted in named containers
                // (the shape used in the crate's own tests)
                FT::OpaqueSkip if !named => FT::PlainSkip,
                // serde(rename) only means something on named fields
                FT::EntityRenamed if !named => FT::Entity,
                FT::U8Renamed if !named => FT::U8,
                other => *other,
            }
        };
        let shape = match &t.shape {
            Shape::Named(fs) => Shape::Named(fs.iter().map(|f| fix(f, true, &out, &mut depth, &mut uses_generic)).collect()),
            Shape::Tuple(fs) => Shape::Tuple(fs.iter().map(|f| fix(f, false, &out, &mut depth, &mut uses_generic)).collect()),
            Shape::Enum(vs) => Shape::Enum(
                vs.iter()
                    .map(|v| match v {
                        Var::Unit => Var::Unit,
                        Var::Tuple(fs) => Var::Tuple(fs.iter().map(|f| fix(f, false, &out, &mut depth, &mut uses_generic)).collect()),
                        Var::Named(fs) => Var::Named(fs.iter().map(|f| fix(f, true, &out, &mut depth, &mut uses_generic)).collect()),
                    })
                    .collect(),
            ),
        };
        // a generic type must use its parameter somewhere
        let generic = t.generic && uses_generic;
        // The derive needs at least one converted (non-skipped) field: otherwise the generated data
        // type does not mention the marker parameter and cannot compile (unit-only enums and
        // all-skipped structs are covered by the blanket impl for serde types instead).
        let converted = |fs: &Vec<FT>| fs.iter().any(|f| !matches!(f, FT::OpaqueSkip | FT::PlainSkip));
        let shape = match shape {
            Shape::Named(mut fs) => {
                if !converted(&fs) {
                    fs[0] = FT::Entity;
                }
                Shape::Named(fs)
            }
            Shape::Tuple(mut fs) => {
                if !converted(&fs) {
                    fs[0] = FT::Entity;
                }
                Shape::Tuple(fs)
            }
            Shape::Enum(mut vs) => {
                let any = vs.iter().any(|v| match v {
                    Var::Unit => false,
                    Var::Tuple(fs) | Var::Named(fs) => converted(fs),
                });
                if !any {
                    vs.push(Var::Tuple(vec![FT::Entity]));
                }
                Shape::Enum(vs)
            }
        };
        out.push(NType { shape, generic, depth });
    }
    out
}

fn nontrivial(t: &NType) -> bool {
    let mix = |fs: &Vec<FT>| fs.len() >= 2 && fs.iter().any(|f| matches!(f, FT::Entity | FT::EntityRenamed | FT::Generic)) && fs.iter().any(|f| !matches!(f, FT::Entity | FT::EntityRenamed | FT::Generic));
    match &t.shape {
        Shape::Named(fs) | Shape::Tuple(fs) => mix(fs),
        Shape::Enum(vs) => {
            let kinds: std::collections::BTreeSet<u8> = vs.iter().map(|v| match v { Var::Unit => 0, Var::Tuple(_) => 1, Var::Named(_) => 2 }).collect();
            kinds.len() >= 2
        }
    }
}

// ---------------------------------------------------------------------------
// printing

fn ty_name(f: &FT, garg: &str) -> String {
    match f {
        FT::Entity | FT::EntityRenamed => "Entity".into(),
        FT::U8 | FT::U8Renamed => "u8".into(),
        FT::I64 => "i64".into(),
        FT::Str => "String".into(),
        FT::OptU16 => "Option<u16>".into(),
        FT::VecU32 => "Vec<u32>".into(),
        FT::TupU8Bool => "(u8, bool)".into(),
        FT::ArrU8 => "[u8; 3]".into(),
        FT::Derived(j) => format!("T{}", j),
        FT::Generic => garg.into(),
        FT::OpaqueSkip => "Opaque".into(),
        FT::PlainSkip => "u32".into(),
    }
}

fn attrs(f: &FT) -> &'static str {
    match f {
        FT::EntityRenamed => "#[convert_save_load_attr(serde(rename = \"RENAMED\"))] ",
        // two forwarded attributes on one field: both must reach the data type
        FT::U8Renamed => "#[convert_save_load_attr(serde(default))] #[convert_save_load_attr(serde(rename = \"RENAMED\"))] ",
        FT::OpaqueSkip => "#[convert_save_load_skip_convert] #[convert_save_load_attr(serde(skip, default))] ",
        FT::PlainSkip => "#[convert_save_load_skip_convert] ",
        _ => "",
    }
}

/// expression building a value of field type `f`; `g` = 0 entity instantiation, 1 u32 instantiation
fn make_expr(f: &FT, g: u8) -> String {
    match f {
        FT::Entity | FT::EntityRenamed => "ents[(r.next() % ents.len() as u64) as usize]".into(),
        FT::U8 | FT::U8Renamed => "(r.next() % 256) as u8".into(),
        FT::I64 => "(r.next() % (1u64 << 41)) as i64 - (1i64 << 40)".into(),
        FT::Str => "format!(\"s{}\", r.next() % 1000)".into(),
        FT::OptU16 => "if r.next() % 3 == 0 { None } else { Some((r.next() % 65536) as u16) }".into(),
        FT::VecU32 => "(0..(r.next() % 4)).map(|_| (r.next() % 100000) as u32).collect::<Vec<u32>>()".into(),
        FT::TupU8Bool => "((r.next() % 256) as u8, r.next() % 2 == 0)".into(),
        FT::ArrU8 => "[(r.next() % 256) as u8, (r.next() % 256) as u8, (r.next() % 256) as u8]".into(),
        FT::Derived(j) => format!("make_T{}(r, ents)", j),
        FT::Generic => {
            if g == 0 {
                "ents[(r.next() % ents.len() as u64) as usize]".into()
            } else {
                "(r.next() % 100000) as u32".into()
            }
        }
        FT::OpaqueSkip => "Opaque((r.next() % 1000) as u32 + 1)".into(),
        FT::PlainSkip => "(r.next() % 100000) as u32".into(),
    }
}

/// JSON expression for the field bound to `x` (a reference); None = omitted
fn ref_expr(f: &FT, x: &str, g: u8) -> Option<String> {
    Some(match f {
        FT::Entity | FT::EntityRenamed => format!("m(*{})", x),
        FT::U8 | FT::U8Renamed | FT::I64 | FT::PlainSkip => format!("json!(*{})", x),
        FT::Str | FT::OptU16 | FT::VecU32 | FT::ArrU8 => format!("json!({})", x),
        FT::TupU8Bool => format!("json!([{x}.0, {x}.1])", x = x),
        FT::Derived(j) => format!("ref_T{}({}, m)", j, x),
        FT::Generic => {
            if g == 0 {
                format!("m(*{})", x)
            } else {
                format!("json!(*{})", x)
            }
        }
        FT::OpaqueSkip => return None,
    })
}

fn perm_expr(f: &FT, x: &str, g: u8) -> String {
    match f {
        FT::Entity | FT::EntityRenamed => format!("pi(*{})", x),
        FT::Derived(j) => format!("perm_T{}({}, pi, direct)", j, x),
        FT::Generic if g == 0 => format!("pi(*{})", x),
        // skipped by serde: lost when the data goes through a serialiser, kept when it does not
        FT::OpaqueSkip => format!("if direct {{ {}.clone() }} else {{ Opaque::default() }}", x),
        _ => format!("{}.clone()", x),
    }
}

fn print_type(out: &mut String, i: usize, t: &NType) {
    let start = out.len();
    // the bound of a generic parameter is written inline or (odd type index) in a where clause
    let (gdecl, wh) = match (t.generic, i % 2) {
        (false, _) => ("", ""),
        (true, 0) => ("<E: EntityLike>", ""),
        (true, _) => ("<E>", " where E: EntityLike"),
    };
    let _ = writeln!(out, "#[derive(ConvertSaveload, Clone, Debug, PartialEq)]");
    match &t.shape {
        Shape::Named(fs) => {
            let _ = writeln!(out, "pub struct T{}{}{} {{", i, gdecl, wh);
            for (k, f) in fs.iter().enumerate() {
                let _ = writeln!(out, "    {}pub {}: {},", attrs(f).replace("RENAMED", &format!("r{}", k)), nf(k), ty_name(f, "E"));
            }
            let _ = writeln!(out, "}}");
        }
        Shape::Tuple(fs) => {
            let body: Vec<String> = fs.iter().map(|f| format!("{}pub {}", attrs(f), ty_name(f, "E"))).collect();
            let _ = writeln!(out, "pub struct T{}{}({}){};", i, gdecl, body.join(", "), wh);
        }
        Shape::Enum(vs) => {
            let _ = writeln!(out, "pub enum T{}{}{} {{", i, gdecl, wh);
            for (k, v) in vs.iter().enumerate() {
                match v {
                    Var::Unit => {
                        let _ = writeln!(out, "    {}V{},", variant_attr(k), k);
                    }
                    Var::Tuple(fs) => {
                        let body: Vec<String> = fs.iter().map(|f| format!("{}{}", attrs(f), ty_name(f, "E"))).collect();
                        let _ = writeln!(out, "    {}V{}({}),", variant_attr(k), k, body.join(", "));
                    }
                    Var::Named(fs) => {
                        let body: Vec<String> = fs.iter().enumerate().map(|(n, f)| format!("{}f{}: {}", attrs(f).replace("RENAMED", &format!("r{}", n)), n, ty_name(f, "E"))).collect();
                        let _ = writeln!(out, "    {}V{} {{ {} }},", variant_attr(k), k, body.join(", "));
                    }
                }
            }
            let _ = writeln!(out, "}}");
        }
    }
    // instantiations
    let insts: Vec<(u8, String, String)> = if t.generic {
        vec![(0, format!("T{}<Entity>", i), format!("T{}e", i)), (1, format!("T{}<u32>", i), format!("T{}u", i))]
    } else {
        vec![(0, format!("T{}", i), format!("T{}", i))]
    };
    for (g, ty, tag) in insts {
        // make
        let _ = writeln!(out, "#[allow(unused_variables)]\nfn make_{}(r: &mut Rng, ents: &[Entity]) -> {} {{", tag, ty);
        match &t.shape {
            Shape::Named(fs) => {
                let body: Vec<String> = fs.iter().enumerate().map(|(k, f)| format!("{}: {}", nf(k), make_expr(f, g))).collect();
                let _ = writeln!(out, "    T{} {{ {} }}", i, body.join(", "));
            }
            Shape::Tuple(fs) => {
                let body: Vec<String> = fs.iter().map(|f| make_expr(f, g)).collect();
                let _ = writeln!(out, "    T{}({})", i, body.join(", "));
            }
            Shape::Enum(vs) => {
                let _ = writeln!(out, "    match r.next() % {} {{", vs.len());
                for (k, v) in vs.iter().enumerate() {
                    let pat = if k + 1 == vs.len() { "_".to_string() } else { k.to_string() };
                    match v {
                        Var::Unit => {
                            let _ = writeln!(out, "        {} => T{}::V{},", pat, i, k);
                        }
                        Var::Tuple(fs) => {
                            let body: Vec<String> = fs.iter().map(|f| make_expr(f, g)).collect();
                            let _ = writeln!(out, "        {} => T{}::V{}({}),", pat, i, k, body.join(", "));
                        }
                        Var::Named(fs) => {
                            let body: Vec<String> = fs.iter().enumerate().map(|(n, f)| format!("f{}: {}", n, make_expr(f, g))).collect();
                            let _ = writeln!(out, "        {} => T{}::V{} {{ {} }},", pat, i, k, body.join(", "));
                        }
                    }
                }
                let _ = writeln!(out, "    }}");
            }
        }
        let _ = writeln!(out, "}}");
        // reference JSON
        let _ = writeln!(out, "#[allow(unused_variables)]\nfn ref_{}(v: &{}, m: &dyn Fn(Entity) -> Value) -> Value {{", tag, ty);
        let is_struct = matches!(t.shape, Shape::Named(_));
        let obj = |fs: &Vec<FT>, bind: &dyn Fn(usize) -> String| -> String {
            let parts: Vec<String> = fs
                .iter()
                .enumerate()
                .filter_map(|(k, f)| {
                    let key = if matches!(f, FT::EntityRenamed | FT::U8Renamed) { format!("r{}", k) } else if is_struct { nf(k) } else { format!("f{}", k) };
                    ref_expr(f, &bind(k), g).map(|e| format!("(\"{}\".to_string(), {})", key, e))
                })
                .collect();
            format!("Value::Object(vec![{}].into_iter().collect())", parts.join(", "))
        };
        let seq = |fs: &Vec<FT>, bind: &dyn Fn(usize) -> String| -> String {
            let parts: Vec<String> = fs.iter().enumerate().filter_map(|(k, f)| ref_expr(f, &bind(k), g)).collect();
            if fs.len() == 1 {
                parts[0].clone()
            } else {
                format!("Value::Array(vec![{}])", parts.join(", "))
            }
        };
        match &t.shape {
            Shape::Named(fs) => {
                let _ = writeln!(out, "    {}", obj(fs, &|k| format!("(&v.{})", nf(k))));
            }
            Shape::Tuple(fs) => {
                let _ = writeln!(out, "    {}", seq(fs, &|k| format!("(&v.{})", k)));
            }
            Shape::Enum(vs) => {
                let _ = writeln!(out, "    match v {{");
                for (k, v) in vs.iter().enumerate() {
                    match v {
                        Var::Unit => {
                            let _ = writeln!(out, "        T{}::V{} => json!(\"{}\"),", i, k, variant_name(k));
                        }
                        Var::Tuple(fs) => {
                            let binds: Vec<String> = (0..fs.len()).map(|n| format!("x{}", n)).collect();
                            let _ = writeln!(out, "        T{}::V{}({}) => Value::Object(vec![(\"{}\".to_string(), {})].into_iter().collect()),", i, k, binds.join(", "), variant_name(k), seq(fs, &|n| format!("x{}", n)));
                        }
                        Var::Named(fs) => {
                            let binds: Vec<String> = (0..fs.len()).map(|n| format!("f{}: x{}", n, n)).collect();
                            let _ = writeln!(out, "        T{}::V{} {{ {} }} => Value::Object(vec![(\"{}\".to_string(), {})].into_iter().collect()),", i, k, binds.join(", "), variant_name(k), obj(fs, &|n| format!("x{}", n)));
                        }
                    }
                }
                let _ = writeln!(out, "    }}");
            }
        }
        let _ = writeln!(out, "}}");
        // permuted expectation
        let _ = writeln!(out, "#[allow(unused_variables)]\nfn perm_{}(v: &{}, pi: &dyn Fn(Entity) -> Entity, direct: bool) -> {} {{", tag, ty, ty);
        match &t.shape {
            Shape::Named(fs) => {
                let body: Vec<String> = fs.iter().enumerate().map(|(k, f)| format!("{}: {}", nf(k), perm_expr(f, &format!("(&v.{})", nf(k)), g))).collect();
                let _ = writeln!(out, "    T{} {{ {} }}", i, body.join(", "));
            }
            Shape::Tuple(fs) => {
                let body: Vec<String> = fs.iter().enumerate().map(|(k, f)| perm_expr(f, &format!("(&v.{})", k), g)).collect();
                let _ = writeln!(out, "    T{}({})", i, body.join(", "));
            }
            Shape::Enum(vs) => {
                let _ = writeln!(out, "    match v {{");
                for (k, v) in vs.iter().enumerate() {
                    match v {
                        Var::Unit => {
                            let _ = writeln!(out, "        T{}::V{} => T{}::V{},", i, k, i, k);
                        }
                        Var::Tuple(fs) => {
                            let binds: Vec<String> = (0..fs.len()).map(|n| format!("x{}", n)).collect();
                            let body: Vec<String> = fs.iter().enumerate().map(|(n, f)| perm_expr(f, &format!("x{}", n), g)).collect();
                            let _ = writeln!(out, "        T{}::V{}({}) => T{}::V{}({}),", i, k, binds.join(", "), i, k, body.join(", "));
                        }
                        Var::Named(fs) => {
                            let binds: Vec<String> = (0..fs.len()).map(|n| format!("f{}: x{}", n, n)).collect();
                            let body: Vec<String> = fs.iter().enumerate().map(|(n, f)| format!("f{}: {}", n, perm_expr(f, &format!("x{}", n), g))).collect();
                            let _ = writeln!(out, "        T{}::V{} {{ {} }} => T{}::V{} {{ {} }},", i, k, binds.join(", "), i, k, body.join(", "));
                        }
                    }
                }
                let _ = writeln!(out, "    }}");
            }
        }
        let _ = writeln!(out, "}}");
        let _ = writeln!(out, "fn check_{tag}(cx: &Cx, seed: u64, n: u32) {{ check::<{ty}>(\"{tag}\", {i}, cx, seed, n, make_{tag}, ref_{tag}, perm_{tag}); }}", tag = tag, ty = ty, i = i);
    }
    // every fourth (non-generic) type is defined through a macro_rules! fragment, so the derive sees its
    // entity fields as `$t:ty` fragments (syn's Type::Group) instead of plain paths
    if !t.generic && i % 4 == 3 {
        let def = out.split_off(start);
        if def.contains("Entity") {
            let _ = writeln!(out, "macro_rules! def_T{} {{ ($ent:ty) => {{\n{}}} }}\ndef_T{}!(Entity);", i, def.replace("Entity", "$ent"), i);
        } else {
            out.push_str(&def);
        }
    }
}

const STORAGES: [&str; 8] = ["VecStorage", "DenseVecStorage", "HashMapStorage", "BTreeStorage", "DefaultVecStorage", "NullStorage", "FlaggedStorage", "FlaggedStorage"];

fn print_comp(out: &mut String, i: usize, c: &CompDef) {
    let s = (c.storage % 8) as usize;
    let null = s == 5;
    let generic = c.shape % 3 == 2 && !null;
    let name = format!("C{}", i);
    let self_ty = if generic { format!("{}<T>", name) } else { name.clone() };
    let _ = &self_ty;
    let form = if s == 7 { 2 } else { c.form % 5 };
    let attr = match form {
        0 => String::new(),
        1 => format!("#[storage({})]\n", STORAGES[s]),
        2 => {
            if s == 7 {
                "#[storage(FlaggedStorage<Self, VecStorage<Self>>)]\n".to_string()
            } else {
                format!("#[storage({}<Self>)]\n", STORAGES[s])
            }
        }
        3 => format!("#[storage(::specs::storage::{})]\n", STORAGES[s]),
        _ => format!("#[storage(::specs::storage::{}<Self>)]\n", STORAGES[s]),
    };
    let trailing = match c.trailing_attrs % 4 {
        0 => "",
        1 => "#[allow(dead_code)]\n",
        2 => "/// a doc comment after the storage attribute\n",
        _ => "#[allow(dead_code)]\n#[repr(C)]\n",
    };
    let _ = write!(out, "#[derive(Component, Default, Clone, Debug)]\n{}{}", attr, trailing);
    if null {
        let _ = writeln!(out, "pub struct {};", name);
    } else if generic {
        let _ = writeln!(out, "pub struct {}<T: Send + Sync + Default + 'static>(pub T);", name);
    } else if c.shape % 3 == 1 {
        let _ = writeln!(out, "pub struct {} {{ pub a: u32, pub b: u8 }}", name);
    } else {
        let _ = writeln!(out, "pub struct {}(pub u32);", name);
    }
    let inst = if generic { format!("{}<u64>", name) } else { name.clone() };
    let expected = if form == 0 {
        format!("DenseVecStorage<{}>", inst)
    } else if s == 7 {
        format!("FlaggedStorage<{inst}, VecStorage<{inst}>>", inst = inst)
    } else {
        format!("{}<{}>", STORAGES[s], inst)
    };
    let _ = writeln!(
        out,
        "fn check_{name}() {{ let ok = TypeId::of::<<{inst} as Component>::Storage>() == TypeId::of::<{expected}>(); report(\"{name}\", {i}, \"component\", ok, if ok {{ String::new() }} else {{ format!(\"<{inst} as Component>::Storage is {{}}, expected {expected}\", std::any::type_name::<<{inst} as Component>::Storage>()) }}); }}",
        name = name, inst = inst, expected = expected, i = i
    );
}

const PRELUDE: &str = r#"// generated by /verif/harness (C18); do not edit
#![allow(dead_code, unused_imports, unused_mut, clippy::all)]
use serde::{Deserialize, Serialize};
use serde_json::{json, Value};
use specs::prelude::*;
use specs::saveload::{ConvertSaveload, Marker, MarkerAllocator, SimpleMarker, SimpleMarkerAllocator};
use specs::storage::{BTreeStorage, HashMapStorage};
use specs::{Component, ConvertSaveload};
use std::any::TypeId;
use std::collections::HashMap;

pub struct Tag;
type M = SimpleMarker<Tag>;

pub trait EntityLike: Clone + PartialEq + std::fmt::Debug {}
impl EntityLike for Entity {}
impl EntityLike for u32 {}

/// not serialisable on purpose
#[derive(Clone, Debug, PartialEq, Default)]
pub struct Opaque(pub u32);

pub struct Rng(u64);
impl Rng {
    fn next(&mut self) -> u64 {
        self.0 ^= self.0 << 13;
        self.0 ^= self.0 >> 7;
        self.0 ^= self.0 << 17;
        self.0 >> 11
    }
}

pub struct Cx {
    ents: Vec<Entity>,
    markers: HashMap<Entity, M>,
    by_id: HashMap<u64, usize>,
}

fn report(name: &str, index: usize, kind: &str, ok: bool, msg: String) {
    println!("{}", json!({"name": name, "index": index, "kind": kind, "ok": ok, "msg": msg}));
}

fn check<T>(
    name: &str,
    index: usize,
    cx: &Cx,
    seed: u64,
    n: u32,
    make: fn(&mut Rng, &[Entity]) -> T,
    reference: fn(&T, &dyn Fn(Entity) -> Value) -> Value,
    perm: fn(&T, &dyn Fn(Entity) -> Entity, bool) -> T,
) where
    T: ConvertSaveload<M> + PartialEq + std::fmt::Debug,
    <T as ConvertSaveload<M>>::Error: std::fmt::Debug,
{
    let mut r = Rng(seed | 1);
    let m = |e: Entity| serde_json::to_value(&cx.markers[&e]).unwrap();
    let nents = cx.ents.len();
    let pi = |e: Entity| {
        let k = cx.ents.iter().position(|x| *x == e).unwrap();
        cx.ents[(k + 1) % nents]
    };
    for k in 0..n {
        let v = make(&mut r, &cx.ents);
        let data = match v.convert_into(|e| cx.markers.get(&e).cloned()) {
            Ok(d) => d,
            Err(e) => return report(name, index, "convert_into", false, format!("value #{} {:?}: error {:?}", k, v, e)),
        };
        let got = serde_json::to_value(&data).unwrap();
        let want = reference(&v, &m);
        if got != want {
            return report(name, index, "convert_into", false, format!("value #{} {:?}: derived conversion serialises to {} but the field-wise definition gives {}", k, v, got, want));
        }
        let data2: <T as ConvertSaveload<M>>::Data = match serde_json::from_value(got.clone()) {
            Ok(d) => d,
            Err(e) => return report(name, index, "deserialize", false, format!("value #{} {:?}: cannot deserialise {}: {}", k, v, got, e)),
        };
        let back = match T::convert_from(data2, |mk: M| cx.by_id.get(&mk.id()).map(|i| cx.ents[(*i + 1) % nents])) {
            Ok(b) => b,
            Err(e) => return report(name, index, "convert_from", false, format!("value #{} {:?}: error {:?}", k, v, e)),
        };
        let expect = perm(&v, &pi, false);
        if back != expect {
            return report(name, index, "convert_from", false, format!("value #{} {:?}: round trip through a permuted marker mapping gives {:?}, the field-wise definition gives {:?}", k, v, back, expect));
        }
        // the same without a serialiser in between: fields that are not converted are cloned, also
        // those that serde would skip
        let data3 = match v.convert_into(|e| cx.markers.get(&e).cloned()) {
            Ok(d) => d,
            Err(e) => return report(name, index, "convert_into", false, format!("value #{} {:?}: error {:?}", k, v, e)),
        };
        let back3 = match T::convert_from(data3, |mk: M| cx.by_id.get(&mk.id()).map(|i| cx.ents[(*i + 1) % nents])) {
            Ok(b) => b,
            Err(e) => return report(name, index, "convert_from", false, format!("value #{} {:?}: error {:?}", k, v, e)),
        };
        let expect3 = perm(&v, &pi, true);
        if back3 != expect3 {
            return report(name, index, "convert_from", false, format!("value #{} {:?}: direct round trip (no serialiser in between) gives {:?}, the field-wise definition gives {:?}", k, v, back3, expect3));
        }
    }
    report(name, index, "convert", true, String::new());
}
"#;

pub fn print_program(p: &Program) -> String {
    let types = normalise(p);
    let mut out = String::from(PRELUDE);
    for (i, t) in types.iter().enumerate() {
        print_type(&mut out, i, t);
    }
    for (i, c) in p.comps.iter().enumerate() {
        print_comp(&mut out, i, c);
    }
    let _ = writeln!(out, "fn main() {{");
    let _ = writeln!(out, "    let mut world = World::new();");
    let _ = writeln!(out, "    let mut alloc = SimpleMarkerAllocator::<Tag>::new();");
    let _ = writeln!(out, "    let ents: Vec<Entity> = world.create_iter().take(5).collect();");
    let _ = writeln!(out, "    let mut markers = HashMap::new();\n    let mut by_id = HashMap::new();");
    let _ = writeln!(out, "    for (i, e) in ents.iter().enumerate() {{ let mk = alloc.allocate(*e, Some(1000 + 7 * i as u64)); by_id.insert(mk.id(), i); markers.insert(*e, mk); }}");
    let _ = writeln!(out, "    let cx = Cx {{ ents, markers, by_id }};");
    for (i, t) in types.iter().enumerate() {
        if t.generic {
            let _ = writeln!(out, "    check_T{}e(&cx, {}u64, {});", i, p.seed.wrapping_add(i as u64 * 2), p.values);
            let _ = writeln!(out, "    check_T{}u(&cx, {}u64, {});", i, p.seed.wrapping_add(i as u64 * 2 + 1), p.values);
        } else {
            let _ = writeln!(out, "    check_T{}(&cx, {}u64, {});", i, p.seed.wrapping_add(i as u64 * 2), p.values);
        }
    }
    for i in 0..p.comps.len() {
        let _ = writeln!(out, "    check_C{}();", i);
    }
    let _ = writeln!(out, "}}");
    out
}

// ---------------------------------------------------------------------------
// build + run

fn gen_dir(shard: usize) -> PathBuf {
    Path::new(VERIF_DIR).join("harness/gen").join(format!("c18-{}", shard))
}

struct RunOut {
    reports: Vec<Value>,
}

fn build_and_run(p: &Program, shard: usize) -> Result<RunOut, Violation> {
    let dir = gen_dir(shard);
    let _ = std::fs::create_dir_all(dir.join("src"));
    let _ = std::fs::create_dir_all(dir.join(".cargo"));
    std::fs::write(
        dir.join("Cargo.toml"),
        // (development aid: VERIF_DEV_REPO points the generated crate at a scratch copy of the repository)
        "[package]\nname = \"c18-gen\"\nversion = \"0.0.0\"\nedition = \"2021\"\npublish = false\n\n[dependencies]\nspecs = { path = \"/repo\", features = [\"serde\", \"derive\"] }\nserde = { version = \"1\", features = [\"derive\"] }\nserde_json = \"1\"\n\n[profile.dev]\nopt-level = 0\ndebug = 0\nincremental = false\n\n[workspace]\n"
            .replace("\"/repo\"", &format!("\"{}\"", std::env::var("VERIF_DEV_REPO").unwrap_or_else(|_| "/repo".to_string()))),
    )
    .map_err(|e| Violation::new("INFRA", "gen-write", e.to_string()))?;
    std::fs::write(dir.join(".cargo/config.toml"), "[net]\noffline = true\n").map_err(|e| Violation::new("INFRA", "gen-write", e.to_string()))?;
    let _ = std::fs::copy(Path::new(VERIF_DIR).join("harness/Cargo.lock"), dir.join("Cargo.lock"));
    std::fs::write(dir.join("src/main.rs"), print_program(p)).map_err(|e| Violation::new("INFRA", "gen-write", e.to_string()))?;
    let target = Path::new(VERIF_DIR).join("harness/target").join(format!("gen-{}", shard));
    let out = Command::new("cargo")
        .arg("build")
        .arg("--offline")
        .current_dir(&dir)
        .env("CARGO_TARGET_DIR", &target)
        .env_remove("RUSTFLAGS")
        .output()
        .map_err(|e| Violation::new("INFRA", "cargo", e.to_string()))?;
    if !out.status.success() {
        let err = String::from_utf8_lossy(&out.stderr).to_string();
        let errors: Vec<&str> = err.lines().filter(|l| l.starts_with("error")).take(5).collect();
        let in_generated = err.contains("src/main.rs") && (err.contains("derive(ConvertSaveload") || err.contains("derive(Component") || err.contains("in this derive macro expansion") || err.contains("proc-macro derive panicked"));
        let excerpt: String = err.lines().filter(|l| l.starts_with("error") || l.trim_start().starts_with("-->")).take(12).collect::<Vec<_>>().join(" | ");
        if in_generated {
            return Err(Violation::new("C18", "derive-does-not-compile", format!("a type definition from the supported grammar no longer compiles with the derive macros: {:?} ... {}", errors, excerpt)));
        }
        return Err(Violation::new("INFRA", "gen-build", format!("generated crate does not build (not attributable to a derive expansion): {}", excerpt)));
    }
    let run = Command::new(target.join("debug/c18-gen")).output().map_err(|e| Violation::new("INFRA", "gen-run", e.to_string()))?;
    let stdout = String::from_utf8_lossy(&run.stdout).to_string();
    let reports: Vec<Value> = stdout.lines().filter_map(|l| serde_json::from_str(l).ok()).collect();
    if !run.status.success() {
        return Err(Violation::new("C18", "generated-program-crashed", format!("the generated program terminated abnormally ({}); last reports: {:?}; stderr: {}", run.status, reports.iter().rev().take(2).collect::<Vec<_>>(), String::from_utf8_lossy(&run.stderr).chars().take(400).collect::<String>())));
    }
    Ok(RunOut { reports })
}

#[derive(Clone, Debug, Serialize, Deserialize, Hash, PartialEq, Eq)]
struct TypeCase {
    def: String,
    index: usize,
}

fn judge(p: &Program, out: &RunOut, stats: &mut Stats) -> Result<(), (Violation, usize, bool)> {
    let types = normalise(p);
    let expected = types.iter().map(|t| if t.generic { 2 } else { 1 }).sum::<usize>() + p.comps.len();
    if out.reports.len() != expected {
        return Err((Violation::new("INFRA", "gen-output", format!("generated program printed {} reports, expected {}", out.reports.len(), expected)), 0, false));
    }
    for r in &out.reports {
        let idx = r["index"].as_u64().unwrap_or(0) as usize;
        let is_comp = r["kind"] == "component";
        if r["ok"] != true {
            let sig = match r["kind"].as_str().unwrap_or("") {
                "component" => "wrong-storage",
                "convert_into" => "convert_into-differs",
                "convert_from" => "convert_from-differs",
                _ => "conversion-error",
            };
            return Err((Violation::new("C18", sig, format!("{} ({}): {}", r["name"].as_str().unwrap_or("?"), r["kind"].as_str().unwrap_or("?"), r["msg"].as_str().unwrap_or(""))), idx, is_comp));
        }
    }
    for (i, t) in types.iter().enumerate() {
        stats.case(&TypeCase { def: format!("{:?}", t.shape), index: i }, nontrivial(t));
        stats.label(match t.shape {
            Shape::Named(_) => "named_struct",
            Shape::Tuple(_) => "tuple_struct",
            Shape::Enum(_) => "enum",
        });
        if t.generic {
            stats.label("generic");
        }
        if t.depth > 1 {
            stats.label("nested");
        }
    }
    for (i, c) in p.comps.iter().enumerate() {
        stats.case(&TypeCase { def: format!("{:?}", c), index: 1000 + i }, c.form % 5 != 0);
        stats.label("component_derive");
    }
    Ok(())
}

/// Keeps only the failing type and what it depends on.
fn minimise(p: &Program, idx: usize, is_comp: bool) -> Program {
    if is_comp {
        return Program { types: vec![], comps: vec![p.comps[idx].clone()], seed: p.seed, values: p.values };
    }
    // dependencies are earlier indices; keep the prefix up to idx (cheap and always valid)
    Program { types: p.types[..=idx.min(p.types.len() - 1)].to_vec(), comps: vec![], seed: p.seed, values: p.values }
}

fn c18_run(ctx: &ShardCtx) -> ShardResult {
    let n_types = ctx.tier.pick(40, 60);
    let n_comps = ctx.tier.pick(16, 24);
    let rounds = ctx.tier.pick(1, 12);
    let mut stats = Stats::default();
    let mut runner = proptest::test_runner::TestRunner::new(proptest::test_runner::Config {
        rng_seed: proptest::test_runner::RngSeed::Fixed(ctx.shard_seed(18)),
        failure_persistence: None,
        ..Default::default()
    });
    let strat = program(n_types, n_comps, ctx.tier.pick(50, 200));
    for _ in 0..rounds {
        let tree = match strat.new_tree(&mut runner) {
            Ok(t) => t,
            Err(e) => return ShardResult { stats, failure: Some(Failure { violation: Violation::new("INFRA", "gen", e.to_string()), case: Value::Null }) },
        };
        let p = proptest::strategy::ValueTree::current(&tree);
        if let Ok(v) = serde_json::to_value(&p) {
            ctx.journal(&v);
        }
        let res = build_and_run(&p, ctx.shard).map_err(|v| (v, usize::MAX, false)).and_then(|out| judge(&p, &out, &mut stats));
        if let Err((v, idx, is_comp)) = res {
            // minimise: the failing type plus the earlier types it may refer to
            let small = if idx != usize::MAX { minimise(&p, idx, is_comp) } else { p.clone() };
            let case = match build_and_run(&small, ctx.shard).map_err(|v| (v, 0, false)).and_then(|o| judge(&small, &o, &mut Stats::default())) {
                Err((v2, _, _)) if v2.prop == v.prop => small,
                _ => p.clone(),
            };
            return ShardResult { stats, failure: Some(Failure { violation: v, case: serde_json::to_value(&case).unwrap_or(Value::Null) }) };
        }
    }
    ShardResult { stats, failure: None }
}

fn c18_replay(v: &Value) -> Verdict {
    let p: Program = parse_case("program", v)?;
    let out = build_and_run(&p, 99)?;
    judge(&p, &out, &mut Stats::default()).map_err(|e| e.0)
}

pub fn c18() -> Property {
    Property {
        id: "C18",
        subs: vec![SubCheck {
            name: "generated-programs",
            shards: |t: Tier| t.pick(1, 8),
            run: c18_run,
            replay: c18_replay,
            rule: "a proptest strategy over a type-definition grammar (named / tuple structs with 1..6 (occasionally 9..13) fields, enums with 1..5 variants of unit / tuple / named kind (1..3, occasionally 9..13 fields), field types Entity, u8, i64, String, Option<u16>, Vec<u32>, (u8,bool), [u8;3], earlier derived types to nesting depth 3, a generic parameter instantiated with Entity and with u32, fields marked #[convert_save_load_skip_convert] with and without a forwarded #[convert_save_load_attr(serde(skip, default))]) and over #[derive(Component)] declarations (no attribute, #[storage(K)], #[storage(K<Self>)], path-qualified, seven storage kinds, generic structs); the printed crate contains per type a hand-expanded field-wise reference conversion (independent of the macro); per type and value (50 quick / 200 thorough): serde_json(convert_into) == reference JSON, convert_from through a marker mapping that composes to a permutation == field-wise expectation (once through JSON, once directly), generic bounds inline or in a where clause, every third enum variant with a forwarded serde(rename), TypeId of the derived Storage == requested storage; non-trivial = a type with >= 2 fields mixing Entity and non-Entity fields or an enum with >= 2 variant kinds (components: an explicit storage attribute); evaluations = type definitions checked",
            exe_env: None,
        }],
        crash_is_violation: false,
        assumptions: &["the grammar is a sample of the supported shapes (grounded in tests/saveload.rs and the derive docs)", "serde's default representations, which the reference conversion mirrors, are trusted"],
    }
}
