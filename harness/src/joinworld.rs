//! A world with eight storages of different kinds, bit sets and a change set
//! whose memberships are generated; shared by the join checks (C06, C07, C13).

use std::collections::{BTreeMap, BTreeSet};

use proptest::prelude::*;
use serde::{Deserialize, Serialize};
use specs::{
    hibitset::{AtomicBitSet, BitSetLike},
    prelude::*,
    storage::AccessMut,
    ChangeSet,
};

use crate::{
    stoseq::ATOMS,
    zoo::{self, CBTree, CDefault, CDense, CDerefDense, CFlagVec, CHash, CNull, CVec, ZooComp},
};

pub type Ident = (u64, u32);

#[derive(Clone, Debug, Serialize, Deserialize, Hash, PartialEq, Eq)]
pub struct IndexSet {
    pub atoms: u32,
    pub runs: Vec<(u32, u8)>,
    pub singles: Vec<u32>,
}

impl IndexSet {
    pub fn expand(&self, span: u32) -> BTreeSet<u32> {
        let mut s = BTreeSet::new();
        for (k, a) in ATOMS.iter().enumerate() {
            if self.atoms & (1 << k) != 0 && *a < span {
                s.insert(*a);
            }
        }
        for (start, len) in &self.runs {
            let st = ((*start as u64 * span as u64) >> 32) as u32;
            for i in st..(st + *len as u32).min(span) {
                s.insert(i);
            }
        }
        for x in &self.singles {
            s.insert(((*x as u64 * span as u64) >> 32) as u32);
        }
        s
    }
}

pub fn index_set() -> impl Strategy<Value = IndexSet> {
    (
        any::<u32>(),
        proptest::collection::vec((any::<u32>(), 1u8..70), 0..3),
        proptest::collection::vec(any::<u32>(), 0..6),
        0u8..4,
    )
        .prop_map(|(atoms, runs, singles, dens)| IndexSet {
            // dens = 0 keeps few atoms, 3 keeps most
            atoms: match dens {
                0 => atoms & (atoms >> 7) & (atoms >> 13),
                1 => atoms & (atoms >> 7),
                2 => atoms,
                _ => atoms | (atoms >> 5),
            },
            runs,
            singles,
        })
}

/// Dense "everything below span" with a few holes (common case: most members present).
pub fn dense_or_sparse() -> impl Strategy<Value = (bool, IndexSet)> {
    (prop::bool::weighted(0.35), index_set())
}

#[derive(Clone, Debug, Serialize, Deserialize, Hash, PartialEq, Eq)]
pub struct Membership {
    /// 0: <=130, 1: <=5000, 2: <=270000, 3: 524292
    pub scale: u8,
    pub span_frac: u16,
    /// entities deleted (immediately) before the join
    pub dead: IndexSet,
    /// entities whose deletion is still pending (deferred, no maintain)
    pub pending_dead: IndexSet,
    /// number of deferred (not yet merged) entities created after the rest
    pub raised: u8,
    /// per storage: (invert?, set); invert = all alive except the set
    pub storages: Vec<(bool, IndexSet)>,
    pub bitsets: Vec<(bool, IndexSet)>,
    pub changes: Vec<(u32, i32)>,
    /// storages are filled in an order derived from this seed, with some remove / re-insert churn
    /// (0 = ascending, no churn)
    pub churn: u16,
}

pub const N_STORAGES: usize = 8;
pub const N_BITSETS: usize = 3;

pub fn membership() -> impl Strategy<Value = Membership> {
    (
        prop_oneof![12 => Just(0u8), 8 => Just(1u8), 2 => Just(2u8), 1 => Just(3u8)],
        any::<u16>(),
        index_set(),
        index_set(),
        0u8..4,
        proptest::collection::vec(dense_or_sparse(), N_STORAGES),
        proptest::collection::vec(dense_or_sparse(), N_BITSETS),
        proptest::collection::vec((any::<u32>(), -50i32..50), 0..12),
        prop_oneof![1 => Just(0u16), 3 => any::<u16>()],
    )
        .prop_map(|(scale, span_frac, dead, pending_dead, raised, storages, bitsets, changes, churn)| Membership {
            scale,
            span_frac,
            dead,
            pending_dead,
            raised,
            storages,
            bitsets,
            changes,
            churn,
        })
}

impl Membership {
    pub fn span(&self) -> u32 {
        let (lo, hi) = match self.scale {
            0 => (2u32, 131u32),
            1 => (131, 5000),
            2 => (5000, 270_000),
            _ => (524_289, 524_293),
        };
        lo + ((self.span_frac as u64 * (hi - lo) as u64) >> 16) as u32
    }
}

/// Resources a join member can refer to.
#[derive(Clone, Copy, Debug, PartialEq, Eq, Hash, Serialize, Deserialize)]
pub enum Res {
    Ents,
    S(usize),
    B(usize),
    AndB01,
    OrB01,
    NotB0,
    XorB01,
    Changes,
}

#[derive(Clone, Copy, Debug, PartialEq, Eq)]
pub enum Member {
    Req(Res),
    Not(Res),
    Opt(Res),
    /// `(&a, (&b).maybe()).maybe()`: an optional group that itself has an optional member
    OptPair(Res, Res),
}

pub struct Model {
    pub span: u32,
    pub alive: BTreeSet<u32>,
    pub handles: BTreeMap<u32, Entity>,
    pub dead_handles: Vec<Entity>,
    pub masks: Vec<BTreeSet<u32>>,
    pub vals: Vec<BTreeMap<u32, Ident>>,
    pub bits: Vec<BTreeSet<u32>>,
    pub changes: BTreeMap<u32, i64>,
}

pub struct JoinWorld {
    pub world: World,
    pub b: Vec<BitSet>,
    pub ab: AtomicBitSet,
    pub cs: Option<ChangeSet<i64>>,
    pub model: Model,
}

fn fill<C: ZooComp>(world: &World, set: &BTreeSet<u32>, handles: &BTreeMap<u32, Entity>, salt: u32, churn: u16) -> BTreeMap<u32, Ident> {
    let mut st = world.write_storage::<C>();
    let mut out = BTreeMap::new();
    let mut order: Vec<u32> = set.iter().cloned().collect();
    if churn != 0 && order.len() <= 20_000 {
        // deterministic shuffle so that insertion order differs from index order
        let mut x = (churn as u64 + 1).wrapping_mul(0x9E37_79B9_7F4A_7C15) ^ salt as u64;
        for i in (1..order.len()).rev() {
            x ^= x << 13;
            x ^= x >> 7;
            x ^= x << 17;
            order.swap(i, (x % (i as u64 + 1)) as usize);
        }
    }
    if churn % 3 == 2 && order.len() <= 20_000 {
        // the storage was used and cleared before
        for i in order.iter().rev().take(9) {
            st.insert(handles[i], C::make(7)).expect("live entity");
        }
        st.clear();
    }
    for i in &order {
        let c = C::make(1000 + salt * 7 + (*i % 97));
        out.insert(*i, c.ident());
        st.insert(handles[i], c).expect("live entity");
    }
    if churn != 0 && order.len() <= 20_000 {
        // remove a few members from the middle of the insertion order and put them back
        let n = order.len();
        let victims: Vec<u32> = (0..n).filter(|k| (k * 7 + churn as usize) % 5 == 0).take(12).map(|k| order[k]).collect();
        for i in &victims {
            let old = st.remove(handles[i]);
            zoo::caller_drop(old);
        }
        for i in victims.iter().rev() {
            let c = C::make(1000 + salt * 7 + (*i % 97));
            out.insert(*i, c.ident());
            st.insert(handles[i], c).expect("live entity");
        }
    }
    out
}

pub fn build(m: &Membership) -> JoinWorld {
    zoo::ledger_reset();
    let span = m.span();
    let mut world = World::new();
    world.register::<CVec>();
    world.register::<CDense>();
    world.register::<CHash>();
    world.register::<CBTree>();
    world.register::<CDefault>();
    world.register::<CNull>();
    world.register::<CFlagVec>();
    world.register::<CDerefDense>();
    let all: Vec<Entity> = world.create_iter().take(span as usize).collect();
    let mut dead = m.dead.expand(span);
    if dead.len() as u32 == span {
        dead.clear();
    }
    let mut dead_handles: Vec<Entity> = dead.iter().map(|i| all[*i as usize]).collect();
    if !dead_handles.is_empty() {
        world.delete_entities(&dead_handles).unwrap();
    }
    // some indices get reused by merged entities, the last `raised` by deferred ones
    let reuse = dead.len() / 2;
    let mut handles: BTreeMap<u32, Entity> = all.iter().filter(|e| !dead.contains(&e.id())).map(|e| (e.id(), *e)).collect();
    for _ in 0..reuse {
        let e = world.create_entity().build();
        handles.insert(e.id(), e);
    }
    for _ in 0..m.raised {
        let e = world.entities().create();
        handles.insert(e.id(), e);
    }
    // pending deletions: still alive until maintain
    for i in m.pending_dead.expand(span) {
        if let Some(e) = handles.get(&i) {
            world.entities().delete(*e).unwrap();
        }
    }
    dead_handles.truncate(8);
    let alive: BTreeSet<u32> = handles.keys().cloned().collect();
    let mut masks = vec![];
    for (inv, s) in &m.storages {
        let set = s.expand(span);
        // nearly-full masks are expensive to build: at large scale only the first storage gets one
        let set: BTreeSet<u32> = if *inv && (span <= 5000 || masks.is_empty()) {
            alive.iter().filter(|i| !set.contains(i)).cloned().collect()
        } else {
            set.intersection(&alive).cloned().collect()
        };
        masks.push(set);
    }
    let vals = vec![
        fill::<CVec>(&world, &masks[0], &handles, 0, m.churn),
        fill::<CDense>(&world, &masks[1], &handles, 1, m.churn),
        fill::<CHash>(&world, &masks[2], &handles, 2, m.churn),
        fill::<CBTree>(&world, &masks[3], &handles, 3, m.churn),
        fill::<CDefault>(&world, &masks[4], &handles, 4, m.churn),
        fill::<CNull>(&world, &masks[5], &handles, 5, m.churn),
        fill::<CFlagVec>(&world, &masks[6], &handles, 6, m.churn),
        fill::<CDerefDense>(&world, &masks[7], &handles, 7, m.churn),
    ];
    let mut bits = vec![];
    let mut b = vec![];
    for (k, (inv, s)) in m.bitsets.iter().enumerate() {
        // bit sets are not tied to entities; the third one may exceed the span
        let bspan = if k == 2 { span.saturating_mul(2).min(1 << 20) } else { span };
        let set = s.expand(bspan);
        let set: BTreeSet<u32> = if *inv { (0..span).filter(|i| !set.contains(i)).collect() } else { set };
        let mut bs = BitSet::new();
        for i in &set {
            bs.add(*i);
        }
        bits.push(set);
        b.push(bs);
    }
    let mut ab = AtomicBitSet::new();
    for i in &bits[2] {
        ab.add(*i);
    }
    let mut cs = ChangeSet::new();
    let mut changes = BTreeMap::new();
    let alive_vec: Vec<u32> = alive.iter().cloned().collect();
    // the set is filled one by one or (odd churn) in one batch, which may name an entity several times
    let mut batch: Vec<(Entity, i64)> = vec![];
    for (x, amt) in &m.changes {
        if alive_vec.is_empty() {
            break;
        }
        let i = alive_vec[((*x as u64 * alive_vec.len() as u64) >> 32) as usize];
        if m.churn % 2 == 1 {
            batch.push((handles[&i], *amt as i64));
        } else {
            cs.add(handles[&i], *amt as i64);
        }
        *changes.entry(i).or_insert(0i64) += *amt as i64;
    }
    if !batch.is_empty() {
        cs.extend(batch);
    }
    JoinWorld {
        world,
        b,
        ab,
        cs: Some(cs),
        model: Model { span, alive, handles, dead_handles, masks, vals, bits, changes },
    }
}

impl Model {
    pub fn set_of(&self, r: Res) -> BTreeSet<u32> {
        match r {
            Res::Ents => self.alive.clone(),
            Res::S(k) => self.masks[k].clone(),
            Res::B(k) => self.bits[k].clone(),
            Res::AndB01 => self.bits[0].intersection(&self.bits[1]).cloned().collect(),
            Res::OrB01 => self.bits[0].union(&self.bits[1]).cloned().collect(),
            Res::XorB01 => self.bits[0].symmetric_difference(&self.bits[1]).cloned().collect(),
            Res::NotB0 => panic!("NotB0 is only usable as a filter"),
            Res::Changes => self.changes.keys().cloned().collect(),
        }
    }

    pub fn contains(&self, r: Res, i: u32) -> bool {
        match r {
            Res::Ents => self.alive.contains(&i),
            Res::S(k) => self.masks[k].contains(&i),
            Res::B(k) => self.bits[k].contains(&i),
            Res::AndB01 => self.bits[0].contains(&i) && self.bits[1].contains(&i),
            Res::OrB01 => self.bits[0].contains(&i) || self.bits[1].contains(&i),
            Res::XorB01 => self.bits[0].contains(&i) != self.bits[1].contains(&i),
            Res::NotB0 => !self.bits[0].contains(&i),
            Res::Changes => self.changes.contains_key(&i),
        }
    }

    /// Expected visit order of a join over `members`.
    pub fn expected(&self, members: &[Member]) -> Vec<u32> {
        // start from the smallest enumerable required member
        let mut base: Option<BTreeSet<u32>> = None;
        for m in members {
            if let Member::Req(r) = m {
                if *r == Res::NotB0 {
                    continue;
                }
                let s = self.set_of(*r);
                if base.as_ref().map(|b| s.len() < b.len()).unwrap_or(true) {
                    base = Some(s);
                }
            }
        }
        let base = base.expect("a join shape needs an enumerable required member");
        base.into_iter()
            .filter(|i| {
                members.iter().all(|m| match m {
                    Member::Req(r) => self.contains(*r, *i),
                    Member::Not(r) => !self.contains(*r, *i),
                    Member::Opt(_) | Member::OptPair(..) => true,
                })
            })
            .collect()
    }
}

// ---------------------------------------------------------------------------
// items

#[derive(Clone, Debug, PartialEq, Eq, Hash, Serialize, Deserialize)]
pub enum ItemVal {
    Ent(u32, i32),
    Idx(u32),
    Comp(u64, u32),
    Opt(Option<Box<ItemVal>>),
    Unit,
    Num(i64),
    Tup(Vec<ItemVal>),
}

/// Conversion of one join item into a comparable value; `touch` writes through
/// mutable items.
pub trait ToItem {
    fn item(&self) -> ItemVal;
    fn touch(&mut self, _p: u32) {}
}

macro_rules! to_item_comp {
    ($($t:ty),*) => {$(
        impl<'a> ToItem for &'a $t {
            fn item(&self) -> ItemVal { let (s, p) = self.ident(); ItemVal::Comp(s, p) }
        }
        impl<'a> ToItem for &'a mut $t {
            fn item(&self) -> ItemVal { let (s, p) = self.ident(); ItemVal::Comp(s, p) }
            fn touch(&mut self, p: u32) { self.set_payload(p) }
        }
        impl<'a> ToItem for specs::storage::PairedStorageRead<'a, $t> {
            fn item(&self) -> ItemVal { let (s, p) = self.get().ident(); ItemVal::Comp(s, p) }
        }
        impl<'a> ToItem for specs::storage::PairedStorageWriteExclusive<'a, $t> {
            fn item(&self) -> ItemVal { let (s, p) = self.get().ident(); ItemVal::Comp(s, p) }
            fn touch(&mut self, p: u32) { self.get_mut().access_mut().set_payload(p) }
        }
    )*};
}
to_item_comp!(CVec, CDense, CHash, CBTree, CDefault, CNull, CFlagVec, CDerefDense);

macro_rules! to_item_shared_write {
    ($($t:ty),*) => {$(
        impl<'a> ToItem for specs::storage::PairedStorageWriteShared<'a, $t> {
            fn item(&self) -> ItemVal { let (s, p) = self.get().ident(); ItemVal::Comp(s, p) }
            fn touch(&mut self, p: u32) { self.get_mut().access_mut().set_payload(p) }
        }
    )*};
}
to_item_shared_write!(CVec, CDense, CHash, CBTree, CDefault, CNull, CFlagVec);

impl<'a, A, C> ToItem for specs::storage::FlaggedAccessMut<'a, A, C>
where
    A: AccessMut<Target = C>,
    C: ZooComp,
{
    fn item(&self) -> ItemVal {
        let (s, p) = self.ident();
        ItemVal::Comp(s, p)
    }
    fn touch(&mut self, p: u32) {
        self.access_mut().set_payload(p)
    }
}

impl<'a, 'b, T, D> ToItem for specs::storage::StorageEntry<'a, 'b, T, D>
where
    T: ZooComp,
    D: std::ops::DerefMut<Target = specs::storage::MaskedStorage<T>>,
{
    fn item(&self) -> ItemVal {
        match self {
            specs::storage::StorageEntry::Occupied(o) => {
                let (s, p) = o.get().ident();
                ItemVal::Opt(Some(Box::new(ItemVal::Comp(s, p))))
            }
            specs::storage::StorageEntry::Vacant(_) => ItemVal::Opt(None),
        }
    }
}

impl ToItem for Entity {
    fn item(&self) -> ItemVal {
        ItemVal::Ent(self.id(), self.gen().id())
    }
}
impl ToItem for u32 {
    fn item(&self) -> ItemVal {
        ItemVal::Idx(*self)
    }
}
impl ToItem for () {
    fn item(&self) -> ItemVal {
        ItemVal::Unit
    }
}
impl<'a> ToItem for &'a i64 {
    fn item(&self) -> ItemVal {
        ItemVal::Num(**self)
    }
}
impl<'a> ToItem for &'a mut i64 {
    fn item(&self) -> ItemVal {
        ItemVal::Num(**self)
    }
    fn touch(&mut self, p: u32) {
        **self += p as i64;
    }
}
impl ToItem for i64 {
    fn item(&self) -> ItemVal {
        ItemVal::Num(*self)
    }
}
impl<A: ToItem, B: ToItem> ToItem for (A, B) {
    fn item(&self) -> ItemVal {
        ItemVal::Tup(vec![self.0.item(), self.1.item()])
    }
    fn touch(&mut self, p: u32) {
        self.0.touch(p);
        self.1.touch(p);
    }
}
impl<T: ToItem> ToItem for Option<T> {
    fn item(&self) -> ItemVal {
        ItemVal::Opt(self.as_ref().map(|t| Box::new(t.item())))
    }
    fn touch(&mut self, p: u32) {
        if let Some(t) = self.as_mut() {
            t.touch(p)
        }
    }
}
macro_rules! to_item_owned {
    ($($t:ty),*) => {$(
        impl ToItem for $t {
            fn item(&self) -> ItemVal { let (s, p) = self.ident(); ItemVal::Comp(s, p) }
        }
    )*};
}
to_item_owned!(CVec, CDense, CHash, CBTree, CDefault, CNull, CFlagVec, CDerefDense);

pub trait ToItems {
    fn items(&self) -> Vec<ItemVal>;
    fn touch_all(&mut self, p: u32);
}

macro_rules! to_items_tuple {
    ($($n:ident),+) => {
        impl<$($n: ToItem),+> ToItems for ($($n,)+) {
            #[allow(non_snake_case)]
            fn items(&self) -> Vec<ItemVal> {
                let ($(ref $n,)+) = *self;
                vec![$($n.item()),+]
            }
            #[allow(non_snake_case)]
            fn touch_all(&mut self, p: u32) {
                let ($(ref mut $n,)+) = *self;
                $($n.touch(p);)+
            }
        }
    };
}
to_items_tuple!(A);
to_items_tuple!(A, B);
to_items_tuple!(A, B, C);
to_items_tuple!(A, B, C, D);
to_items_tuple!(A, B, C, D, E);
to_items_tuple!(A, B, C, D, E, F);
to_items_tuple!(A, B, C, D, E, F, G);
to_items_tuple!(A, B, C, D, E, F, G, H);
to_items_tuple!(A, B, C, D, E, F, G, H, I);
to_items_tuple!(A, B, C, D, E, F, G, H, I, J);
to_items_tuple!(A, B, C, D, E, F, G, H, I, J, K);
to_items_tuple!(A, B, C, D, E, F, G, H, I, J, K, L);
to_items_tuple!(A, B, C, D, E, F, G, H, I, J, K, L, M);
to_items_tuple!(A, B, C, D, E, F, G, H, I, J, K, L, M, N);
to_items_tuple!(A, B, C, D, E, F, G, H, I, J, K, L, M, N, O);
to_items_tuple!(A, B, C, D, E, F, G, H, I, J, K, L, M, N, O, P);

/// All eight storages fetched for writing plus the other members.
pub struct Fetched<'a> {
    pub ents: Entities<'a>,
    pub ents2: Entities<'a>,
    pub s0: WriteStorage<'a, CVec>,
    pub s1: WriteStorage<'a, CDense>,
    pub s2: WriteStorage<'a, CHash>,
    pub s3: WriteStorage<'a, CBTree>,
    pub s4: WriteStorage<'a, CDefault>,
    pub s5: WriteStorage<'a, CNull>,
    pub s6: WriteStorage<'a, CFlagVec>,
    pub s7: WriteStorage<'a, CDerefDense>,
    pub b0: &'a BitSet,
    pub b1: &'a BitSet,
    pub b2: &'a BitSet,
    pub ab: &'a AtomicBitSet,
    pub cs: &'a mut Option<ChangeSet<i64>>,
}

impl JoinWorld {
    pub fn fetch(&mut self) -> Fetched<'_> {
        let w = &self.world;
        Fetched {
            ents: w.entities(),
            ents2: w.entities(),
            s0: w.write_storage(),
            s1: w.write_storage(),
            s2: w.write_storage(),
            s3: w.write_storage(),
            s4: w.write_storage(),
            s5: w.write_storage(),
            s6: w.write_storage(),
            s7: w.write_storage(),
            b0: &self.b[0],
            b1: &self.b[1],
            b2: &self.b[2],
            ab: &self.ab,
            cs: &mut self.cs,
        }
    }

    /// Current contents of storage `k` as index -> ident, read through the mask and a join.
    pub fn contents(&self, k: usize) -> BTreeMap<u32, Ident> {
        fn read<C: ZooComp>(w: &World) -> BTreeMap<u32, Ident> {
            let st = w.read_storage::<C>();
            let mask: Vec<u32> = st.mask().iter().collect();
            mask.into_iter().zip((&st).join().map(|c| c.ident())).collect()
        }
        match k {
            0 => read::<CVec>(&self.world),
            1 => read::<CDense>(&self.world),
            2 => read::<CHash>(&self.world),
            3 => read::<CBTree>(&self.world),
            4 => read::<CDefault>(&self.world),
            5 => read::<CNull>(&self.world),
            6 => read::<CFlagVec>(&self.world),
            _ => read::<CDerefDense>(&self.world),
        }
    }

    /// Direct lookup `get(entity)` in storage `k`.
    pub fn lookup(&self, k: usize, e: Entity) -> Option<Ident> {
        fn g<C: ZooComp>(w: &World, e: Entity) -> Option<Ident> {
            w.read_storage::<C>().get(e).map(|c| c.ident())
        }
        match k {
            0 => g::<CVec>(&self.world, e),
            1 => g::<CDense>(&self.world, e),
            2 => g::<CHash>(&self.world, e),
            3 => g::<CBTree>(&self.world, e),
            4 => g::<CDefault>(&self.world, e),
            5 => g::<CNull>(&self.world, e),
            6 => g::<CFlagVec>(&self.world, e),
            _ => g::<CDerefDense>(&self.world, e),
        }
    }
}
