//! Large-world allocation histories (C01 / C02 / C17): thousands of entities
//! created and deleted in bulk, so that allocator bookkeeping which depends on
//! table sizes (generation vector growth / trimming, free-list length, layered
//! bitset blocks) is reached.  The model is kept light: no per-step scans of
//! every handle against every storage as in hist.rs.

use std::collections::{HashMap, HashSet};

use proptest::prelude::*;
use serde::{Deserialize, Serialize};
use serde_json::Value;
use specs::prelude::*;

use crate::engine::{parse_case, run_proptest, ShardCtx, ShardResult, Stats, SubCheck, Tier, Verdict, Violation};

/// Every entity gets one component in each of two storages (value = index and generation), so that the
/// purge of bulk deletions is observable (C05).
#[derive(Debug, PartialEq, Clone, Copy)]
pub struct BwVec(pub u64);
impl Component for BwVec {
    type Storage = VecStorage<Self>;
}
#[derive(Debug, PartialEq, Clone, Copy)]
pub struct BwDense(pub u64);
impl Component for BwDense {
    type Storage = DenseVecStorage<Self>;
}

fn val(e: Entity) -> u64 {
    ((e.id() as u64) << 32) | e.gen().id() as u32 as u64
}

#[derive(Debug, Clone, Hash, Serialize, Deserialize)]
pub struct Round {
    /// Entities created in this round.
    pub create: u16,
    /// 0 = World::create_iter, 1 = Entities::create_iter (atomic), 2 = Entities::create in a loop,
    /// 3 = create_entity().build() in a loop
    pub create_how: u8,
    /// Deleted range of the ordered list of live entities, as 16-bit fractions.
    pub del_lo: u16,
    pub del_hi: u16,
    /// Every `stride`-th entity of the range is deleted.
    pub stride: u8,
    /// 0 = one delete_entities batch (ascending, reversed or interleaved order), 1 = Entities::delete each (atomic),
    /// 2 = delete_entity each, 3 = delete_all, 4 = one batch with a dead handle three quarters in (fails there)
    pub del_how: u8,
    pub maintain_after_create: bool,
    pub maintain_after_delete: bool,
}

#[derive(Debug, Clone, Hash, Serialize, Deserialize)]
pub struct BigCase {
    pub rounds: Vec<Round>,
}

pub fn strategy(max_create: u16, max_rounds: usize) -> impl Strategy<Value = BigCase> {
    let round = (
        0u16..=max_create,
        0u8..4,
        any::<u16>(),
        any::<u16>(),
        1u8..=4,
        prop_oneof![6 => Just(0u8), 3 => Just(1u8), 2 => Just(2u8), 1 => Just(3u8), 3 => Just(4u8)],
        any::<bool>(),
        prop_oneof![3 => Just(true), 1 => Just(false)],
    )
        .prop_map(|(create, create_how, a, b, stride, del_how, m1, m2)| Round {
            create,
            create_how,
            del_lo: a.min(b),
            del_hi: a.max(b),
            stride,
            del_how,
            maintain_after_create: m1,
            maintain_after_delete: m2,
        });
    prop::collection::vec(round, 1..=max_rounds).prop_map(|rounds| BigCase { rounds })
}

#[derive(Default)]
pub struct BigFacts {
    pub max_live: usize,
    pub max_used: usize,
    pub reuse: u64,
    pub mass_deletion_then_creation: bool,
    pub failing_batch_late: bool,
}

struct Model {
    live: Vec<Entity>,
    ever: HashSet<Entity>,
    /// index -> not-yet-dead occupant (includes atomically deleted ones until maintain)
    occupant: HashMap<u32, Entity>,
    pending_dead: Vec<Entity>,
    dead: Vec<Entity>,
    last_gen: HashMap<u32, i32>,
    peak: usize,
    used: usize,
}

fn on_created(m: &mut Model, e: Entity, out: &mut Vec<Violation>, facts: &mut BigFacts) {
    if !m.ever.insert(e) {
        out.push(Violation::new("C01", "handle-reissued", format!("{:?} was returned by an earlier creation", e)));
    }
    if e.gen().id() <= 0 {
        out.push(Violation::new("C01", "non-positive-generation", format!("{:?}", e)));
    }
    if let Some(prev) = m.last_gen.get(&e.id()) {
        if e.gen().id() <= *prev {
            out.push(Violation::new(
                "C01",
                "generation-not-increased",
                format!("{:?} follows generation {} on the same index", e, prev),
            ));
        }
        facts.reuse += 1;
    }
    m.last_gen.insert(e.id(), e.gen().id());
    if let Some(o) = m.occupant.get(&e.id()) {
        out.push(Violation::new("C01", "index-shared", format!("{:?} created while {:?} is not yet dead", e, o)));
    }
    let occupied = m.occupant.len();
    m.peak = m.peak.max(occupied + 1);
    if (e.id() as usize) >= m.peak {
        out.push(Violation::new(
            "C17",
            "index-beyond-peak",
            format!("{:?} created with {} occupied indices, peak {}", e, occupied, m.peak),
        ));
    }
    if e.id() as usize >= m.used {
        if occupied < m.used {
            out.push(Violation::new(
                "C17",
                "fresh-index-while-free",
                format!("{:?} takes a never-used index while only {} of {} used indices are occupied", e, occupied, m.used),
            ));
        }
        m.used = e.id() as usize + 1;
    }
    m.occupant.insert(e.id(), e);
    m.live.push(e);
}

fn merge_model(m: &mut Model) {
    for e in m.pending_dead.drain(..) {
        m.occupant.remove(&e.id());
        m.dead.push(e);
    }
}

fn check_world(world: &World, m: &Model, merged: bool, out: &mut Vec<Violation>) {
    let ents = world.entities();
    for e in &m.live {
        if !ents.is_alive(*e) {
            out.push(Violation::new("C02", "live-reported-dead", format!("{:?} is live but is_alive is false", e)));
            break;
        }
    }
    for e in m.dead.iter().chain(m.pending_dead.iter().filter(|_| merged)) {
        if ents.is_alive(*e) {
            out.push(Violation::new("C02", "dead-reported-alive", format!("{:?} is dead but is_alive is true", e)));
            break;
        }
    }
    // C05: components exactly on the entities that are not yet dead (a requested deletion keeps them
    // until maintain), each with its own value
    {
        let sv = world.read_storage::<BwVec>();
        let sd = world.read_storage::<BwDense>();
        let holders = m.occupant.len();
        if sv.count() != holders || sd.count() != holders {
            out.push(Violation::new("C05", "component-count", format!(
                "{} entities are not yet dead but the storages hold {} / {} components", holders, sv.count(), sd.count())));
        } else {
            for e in m.live.iter().step_by(7) {
                if sv.get(*e) != Some(&BwVec(val(*e))) || sd.get(*e) != Some(&BwDense(val(*e))) {
                    out.push(Violation::new("C05", "component-changed", format!(
                        "{:?} holds {:?} / {:?}, expected its own value {}", e, sv.get(*e), sd.get(*e), val(*e))));
                    break;
                }
            }
        }
    }
    if merged {
        let joined: Vec<Entity> = (&ents).join().collect();
        let set: HashSet<Entity> = joined.iter().copied().collect();
        let ids: HashSet<u32> = joined.iter().map(|e| e.id()).collect();
        if ids.len() != joined.len() {
            out.push(Violation::new("C01", "join-duplicate-index", "the entity join delivered an index twice".to_string()));
        }
        let expect: HashSet<Entity> = m.live.iter().copied().collect();
        if set != expect {
            let extra: Vec<_> = set.difference(&expect).take(3).collect();
            let missing: Vec<_> = expect.difference(&set).take(3).collect();
            out.push(Violation::new(
                "C02",
                "join-differs",
                format!("entity join has {} handles, model {}; extra {:?} missing {:?}", set.len(), expect.len(), extra, missing),
            ));
        }
        for (kind, msg) in ents.verif_check() {
            let prop = if kind == "leak" { "C17" } else { "C01" };
            out.push(Violation::new(prop, if kind == "leak" { "allocator-leak" } else { "allocator-overlap" }, msg));
        }
    }
}

pub fn run_case(case: &BigCase) -> Result<BigFacts, Violation> {
    let mut facts = BigFacts::default();
    let mut world = World::new();
    world.register::<BwVec>();
    world.register::<BwDense>();
    let mut m = Model {
        live: vec![],
        ever: HashSet::new(),
        occupant: HashMap::new(),
        pending_dead: vec![],
        dead: vec![],
        last_gen: HashMap::new(),
        peak: 0,
        used: 0,
    };
    let mut out: Vec<Violation> = vec![];
    // failures of the other properties' oracles do not end the case: the focus property is judged on the whole history
    let mut deferred: Option<Violation> = None;
    let mut had_mass_deletion = false;
    // the final round re-creates after everything has been deleted
    let tail = Round {
        create: 3000,
        create_how: 0,
        del_lo: 0,
        del_hi: 0,
        stride: 1,
        del_how: 3,
        maintain_after_create: true,
        maintain_after_delete: true,
    };
    let closing = Round { create: 1500, create_how: 1, del_lo: 0, del_hi: 0, stride: 1, del_how: 0, maintain_after_create: true, maintain_after_delete: true };
    for r in case.rounds.iter().chain([tail, closing].iter()) {
        // ---- creation
        let n = r.create as usize;
        let created: Vec<Entity> = match r.create_how {
            0 => world.create_iter().take(n).collect(),
            1 => world.entities().create_iter().take(n).collect(),
            2 => {
                let ents = world.entities();
                (0..n).map(|_| ents.create()).collect()
            }
            _ => (0..n).map(|_| world.create_entity().build()).collect(),
        };
        if had_mass_deletion && n > 0 {
            facts.mass_deletion_then_creation = true;
        }
        {
            let mut sv = world.write_storage::<BwVec>();
            let mut sd = world.write_storage::<BwDense>();
            for e in &created {
                if sv.get(*e).is_some() || sd.get(*e).is_some() {
                    out.push(Violation::new("C05", "new-entity-has-component", format!("the new entity {:?} already has a component", e)));
                    break;
                }
                if sv.insert(*e, BwVec(val(*e))).is_err() || sd.insert(*e, BwDense(val(*e))).is_err() {
                    out.push(Violation::new("C02", "live-insert-refused", format!("insert for the just created {:?} was refused", e)));
                    break;
                }
            }
        }
        for e in created {
            on_created(&mut m, e, &mut out, &mut facts);
        }
        facts.max_live = facts.max_live.max(m.live.len());
        facts.max_used = facts.max_used.max(m.used);
        settle(&mut out, &mut deferred)?;
        if r.maintain_after_create {
            world.maintain();
            merge_model(&mut m);
        }
        check_world(&world, &m, r.maintain_after_create, &mut out);
        settle(&mut out, &mut deferred)?;
        // ---- deletion
        let len = m.live.len();
        let lo = (r.del_lo as usize * (len + 1)) >> 16;
        let hi = ((r.del_hi as usize * (len + 1)) >> 16).max(lo).min(len);
        let victims: Vec<Entity> = match r.del_how {
            3 => m.live.clone(),
            _ => m.live[lo..hi].iter().copied().step_by(r.stride.max(1) as usize).collect(),
        };
        if victims.len() >= 1000 {
            had_mass_deletion = true;
        }
        let vset: HashSet<Entity> = victims.iter().copied().collect();
        // the order of a batch is the caller's business
        let mut victims = victims;
        if r.del_how == 0 || r.del_how == 4 {
            match r.stride % 3 {
                0 => victims.reverse(),
                2 => {
                    let (a, b): (Vec<(usize, Entity)>, Vec<(usize, Entity)>) = victims.iter().cloned().enumerate().partition(|(k, _)| k % 2 == 0);
                    victims = a.into_iter().chain(b).map(|(_, e)| e).collect();
                }
                _ => {}
            }
        }
        let mut victims = victims;
        if r.del_how == 4 {
            // a dead handle three quarters into the batch: exactly the handles before it die
            if let (Some(stale), true) = (m.dead.last().copied(), victims.len() >= 2) {
                let p = victims.len() * 3 / 4;
                let mut batch = victims.clone();
                batch.insert(p, stale);
                match world.delete_entities(&batch) {
                    Err((err, pos)) => {
                        if pos != p || err.entity != stale {
                            out.push(Violation::new("C02", "failing-batch-position", format!(
                                "delete_entities of {} handles with the dead {:?} at position {} reported position {} / entity {:?}", batch.len(), stale, p, pos, err.entity)));
                        }
                    }
                    Ok(()) => out.push(Violation::new("C02", "failing-batch-accepted", format!("delete_entities accepted a batch containing the dead {:?}", stale))),
                }
                facts.failing_batch_late |= p >= 4096;
                victims.truncate(p);
            } else if let Err(err) = world.delete_entities(&victims) {
                out.push(Violation::new("C02", "live-batch-rejected", format!("delete_entities of live handles failed: {:?}", err)));
            }
            let vset: HashSet<Entity> = victims.iter().copied().collect();
            m.dead.extend(victims.iter().copied());
            for e in &victims {
                m.occupant.remove(&e.id());
            }
            m.live.retain(|e| !vset.contains(e));
            if r.maintain_after_delete {
                world.maintain();
                merge_model(&mut m);
            }
            check_world(&world, &m, r.maintain_after_delete && m.pending_dead.is_empty(), &mut out);
            settle(&mut out, &mut deferred)?;
            continue;
        }
        match r.del_how {
            0 => {
                if let Err(err) = world.delete_entities(&victims) {
                    out.push(Violation::new("C02", "live-batch-rejected", format!("delete_entities of live handles failed: {:?}", err)));
                }
                m.dead.extend(victims.iter().copied());
                for e in &victims {
                    m.occupant.remove(&e.id());
                }
            }
            1 => {
                {
                    let ents = world.entities();
                    for e in &victims {
                        if ents.delete(*e).is_err() {
                            out.push(Violation::new("C02", "live-delete-rejected", format!("Entities::delete({:?}) failed for a live handle", e)));
                            break;
                        }
                    }
                }
                m.pending_dead.extend(victims.iter().copied());
            }
            2 => {
                for e in &victims {
                    if world.delete_entity(*e).is_err() {
                        out.push(Violation::new("C02", "live-delete-rejected", format!("delete_entity({:?}) failed for a live handle", e)));
                        break;
                    }
                }
                // delete_entity maintains nothing but kills immediately
                m.dead.extend(victims.iter().copied());
                for e in &victims {
                    m.occupant.remove(&e.id());
                }
            }
            _ => {
                world.delete_all();
                merge_model(&mut m);
                m.dead.extend(victims.iter().copied());
                m.occupant.clear();
            }
        }
        m.live.retain(|e| !vset.contains(e));
        let merged = r.maintain_after_delete;
        if merged {
            world.maintain();
            merge_model(&mut m);
        }
        check_world(&world, &m, merged && m.pending_dead.is_empty(), &mut out);
        settle(&mut out, &mut deferred)?;
    }
    if let Some(v) = deferred {
        return Err(v);
    }
    Ok(facts)
}

/// Returns the focus property's violation at once; keeps the first violation of another property for the end.
fn settle(out: &mut Vec<Violation>, deferred: &mut Option<Violation>) -> Verdict {
    let f = crate::engine::focus();
    if let Some(i) = out.iter().position(|v| v.prop == f) {
        return Err(out.swap_remove(i));
    }
    if deferred.is_none() && !out.is_empty() {
        *deferred = Some(out.swap_remove(0));
    }
    out.clear();
    Ok(())
}

fn run_one(case: &BigCase, stats: &mut Stats) -> Verdict {
    let facts = run_case(case)?;
    if facts.reuse > 0 {
        stats.label("index_reuse");
    }
    if facts.max_used >= 4096 {
        stats.label("used_indices_ge_4096");
    }
    if facts.max_used >= 8192 {
        stats.label("used_indices_ge_8192");
    }
    if facts.mass_deletion_then_creation {
        stats.label("mass_deletion_then_creation");
    }
    if facts.failing_batch_late {
        stats.label("failing_batch_position_ge_4096");
    }
    stats.case(case, facts.max_used >= 4096 && facts.mass_deletion_then_creation);
    Ok(())
}

fn run(ctx: &ShardCtx) -> ShardResult {
    let cases = ctx.tier.pick(60, 500);
    let max_create = ctx.tier.pick(6000, 20000);
    let rounds = ctx.tier.pick(5, 8);
    run_proptest(ctx, strategy(max_create, rounds), cases, 77, run_one)
}

fn replay(v: &Value) -> Verdict {
    let c: BigCase = parse_case("large-worlds", v)?;
    run_case(&c).map(|_| ())
}

pub fn sub() -> SubCheck {
    SubCheck {
        name: "large-worlds",
        shards: |t: Tier| t.pick(4, 8),
        run,
        replay,
        rule: "proptest rounds of bulk creation (0..=6000 quick / 0..=20000 thorough entities per round through create_iter, Entities::create_iter, Entities::create, create_entity; every entity gets a component in a VecStorage and a DenseVecStorage) and bulk deletion of a generated range/stride of the live list (one batch in ascending / reversed / interleaved order, a batch with a dead handle three quarters in, atomic deletes, delete_entity each, delete_all) with generated maintains, closed by delete_all + two re-creation rounds; light model (handle set, occupant map, running peak): every handle new with a larger generation than its index's previous one, no shared index, index < peak, fresh index only when all used are occupied, is_alive of every live/dead handle, failing batches report the position of the dead handle and kill exactly the prefix, entity join == live set, component counts == not-yet-dead entities with their own values, new entities start without components, allocator self-check; non-trivial = >= 4096 indices in use and a creation after a deletion of >= 1000 entities",
        exe_env: None,
    }
}
