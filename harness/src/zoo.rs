//! Instrumented component values, the construction/destruction ledger and
//! one component type per storage configuration ("zoo").

use std::cell::RefCell;

use serde::{Deserialize, Serialize};
use specs::{
    storage::{BTreeStorage, DerefFlaggedStorage},
    Component, DefaultVecStorage, DenseVecStorage, FlaggedStorage, HashMapStorage, NullStorage,
    VecStorage,
};

const MAGIC: u64 = 0x5EC5_C0FF_EE15_600D;
const DEAD: u64 = 0xDEAD_DEAD_DEAD_DEAD;

#[derive(Clone, Copy, Debug, PartialEq, Eq)]
pub enum St {
    Live,
    DroppedByCaller,
    DestroyedByLibrary,
    /// plain data without a destructor: the ledger never hears of its end
    Plain,
}

#[derive(Default)]
pub struct Ledger {
    /// state per serial (serial = index + 1)
    pub state: Vec<(St, bool)>, // (state, is_placeholder)
    pub errors: Vec<String>,
    pub caller_drop: bool,
    pub zst_constructed: u64,
    pub zst_by_caller: u64,
    pub zst_by_library: u64,
    /// C19: serial whose destructor panics (once).
    pub bomb_serial: Option<u64>,
    /// C19: ZST drop ordinal (by library) that panics (once).
    pub bomb_zst_ordinal: Option<u64>,
    pub bomb_fired: bool,
    /// serials destroyed (by anyone), in order, when recording is on
    pub drop_log: Option<Vec<u64>>,
}

thread_local! {
    pub static LEDGER: RefCell<Ledger> = RefCell::new(Ledger::default());
}

pub fn ledger_reset() {
    LEDGER.with(|l| *l.borrow_mut() = Ledger::default());
}

pub fn with_ledger<R>(f: impl FnOnce(&mut Ledger) -> R) -> R {
    LEDGER.with(|l| f(&mut l.borrow_mut()))
}

/// Drops `v` as the caller (the harness), so the ledger can tell it apart from
/// a destruction performed by the library.
pub fn caller_drop<T>(v: T) {
    with_ledger(|l| l.caller_drop = true);
    drop(v);
    with_ledger(|l| l.caller_drop = false);
}

impl Ledger {
    pub fn live_serials(&self) -> Vec<u64> {
        self.state
            .iter()
            .enumerate()
            .filter(|(_, s)| s.0 == St::Live)
            .map(|(i, _)| i as u64 + 1)
            .collect()
    }

    pub fn state_of(&self, serial: u64) -> Option<St> {
        self.state.get(serial as usize - 1).map(|s| s.0)
    }

    pub fn take_errors(&mut self) -> Vec<String> {
        std::mem::take(&mut self.errors)
    }
}

/// Instrumented payload: unique serial, canary, a mutable number.
pub struct Val {
    serial: u64,
    canary: u64,
    pub payload: u32,
}

impl Val {
    pub fn new(payload: u32) -> Val {
        Self::construct(payload, false)
    }

    fn construct(payload: u32, placeholder: bool) -> Val {
        let serial = with_ledger(|l| {
            l.state.push((St::Live, placeholder));
            l.state.len() as u64
        });
        Val {
            serial,
            canary: serial ^ MAGIC,
            payload,
        }
    }

    pub fn serial(&self) -> u64 {
        self.serial
    }

    /// `Ok(serial)` if this is a live, intact value.
    pub fn check(&self) -> Result<u64, String> {
        let serial = unsafe { std::ptr::read_volatile(&self.serial) };
        let canary = unsafe { std::ptr::read_volatile(&self.canary) };
        if canary == DEAD {
            return Err(format!("value with serial {} was already destroyed (dead canary)", serial));
        }
        if canary != serial ^ MAGIC {
            return Err(format!(
                "value has a corrupt canary (serial field {}, canary {:#x}): slot never written or overwritten",
                serial, canary
            ));
        }
        match with_ledger(|l| l.state.get((serial as usize).wrapping_sub(1)).map(|s| s.0)) {
            Some(St::Live) => Ok(serial),
            Some(s) => Err(format!("value with serial {} is exposed although the ledger says {:?}", serial, s)),
            None => Err(format!("value with unknown serial {} exposed", serial)),
        }
    }
}

impl Default for Val {
    fn default() -> Self {
        Val::construct(0, true)
    }
}

impl Drop for Val {
    fn drop(&mut self) {
        let serial = self.serial;
        let canary_ok = self.canary == serial ^ MAGIC;
        let fire = with_ledger(|l| {
            let idx = (serial as usize).wrapping_sub(1);
            if !canary_ok || idx >= l.state.len() {
                l.errors.push(format!(
                    "destructor ran on a value that is not intact (serial field {}, canary {:#x}): double drop or uninitialised slot",
                    serial, self.canary
                ));
                return false;
            }
            match l.state[idx].0 {
                St::Live => {
                    l.state[idx].0 = if l.caller_drop {
                        St::DroppedByCaller
                    } else {
                        St::DestroyedByLibrary
                    };
                }
                s => l.errors.push(format!("serial {} destroyed twice (was {:?})", serial, s)),
            }
            if let Some(log) = l.drop_log.as_mut() {
                log.push(serial);
            }
            if l.bomb_serial == Some(serial) && !l.bomb_fired {
                l.bomb_fired = true;
                true
            } else {
                false
            }
        });
        unsafe { std::ptr::write_volatile(&mut self.canary, DEAD) };
        if fire {
            panic!("verif-bomb: destructor of serial {} panics", serial);
        }
    }
}

#[derive(Clone, Copy, Debug, PartialEq, Eq, Hash, Serialize, Deserialize, PartialOrd, Ord)]
pub enum Kind {
    Vec,
    Dense,
    DefaultVec,
    HashMap,
    BTree,
    Null,
    FlaggedDense,
    FlaggedVec,
    FlaggedHashMap,
    DerefDense,
    DerefVec,
    DerefBTree,
    FlaggedBTree,
    FlaggedDefault,
    FlaggedNull,
    DerefHashMap,
    DerefDefault,
    DerefNull,
    /// DenseVecStorage of a component type without drop glue
    PlainDense,
    /// FlaggedStorage<_, DenseVecStorage<_>> of a component type without drop glue
    PlainFlagDense,
    /// DefaultVecStorage of a component type without drop glue
    PlainDefault,
}

pub const ALL_KINDS: [Kind; 21] = [
    Kind::Vec,
    Kind::Dense,
    Kind::DefaultVec,
    Kind::HashMap,
    Kind::BTree,
    Kind::Null,
    Kind::FlaggedDense,
    Kind::FlaggedVec,
    Kind::FlaggedHashMap,
    Kind::DerefDense,
    Kind::DerefVec,
    Kind::DerefBTree,
    Kind::FlaggedBTree,
    Kind::FlaggedDefault,
    Kind::FlaggedNull,
    Kind::DerefHashMap,
    Kind::DerefDefault,
    Kind::DerefNull,
    Kind::PlainDense,
    Kind::PlainFlagDense,
    Kind::PlainDefault,
];

impl Kind {
    pub fn from_index(i: usize) -> Kind {
        ALL_KINDS[i % ALL_KINDS.len()]
    }
    pub fn tracked(self) -> bool {
        matches!(
            self,
            Kind::FlaggedDense
                | Kind::FlaggedVec
                | Kind::FlaggedHashMap
                | Kind::DerefDense
                | Kind::DerefVec
                | Kind::DerefBTree
                | Kind::FlaggedBTree
                | Kind::FlaggedDefault
                | Kind::FlaggedNull
                | Kind::DerefHashMap
                | Kind::DerefDefault
                | Kind::DerefNull
                | Kind::PlainFlagDense
        )
    }
    pub fn deref_flagged(self) -> bool {
        matches!(self, Kind::DerefDense | Kind::DerefVec | Kind::DerefBTree | Kind::DerefHashMap | Kind::DerefDefault | Kind::DerefNull)
    }
    pub fn zst(self) -> bool {
        matches!(self, Kind::Null | Kind::FlaggedNull | Kind::DerefNull)
    }
}

/// Instrumented payload without a destructor (`needs_drop::<PVal>()` is false): unique serial and
/// canary like `Val`, but the ledger only knows that it exists.
pub struct PVal {
    serial: u64,
    canary: u64,
    pub payload: u32,
}

impl PVal {
    pub fn new(payload: u32) -> PVal {
        Self::construct(payload, false)
    }
    fn construct(payload: u32, placeholder: bool) -> PVal {
        let serial = with_ledger(|l| {
            l.state.push((St::Plain, placeholder));
            l.state.len() as u64
        });
        PVal { serial, canary: serial ^ MAGIC, payload }
    }
    pub fn serial(&self) -> u64 {
        self.serial
    }
    pub fn check(&self) -> Result<u64, String> {
        let serial = unsafe { std::ptr::read_volatile(&self.serial) };
        let canary = unsafe { std::ptr::read_volatile(&self.canary) };
        if canary != serial ^ MAGIC {
            return Err(format!("plain value has a corrupt canary (serial field {}, canary {:#x}): slot never written or overwritten", serial, canary));
        }
        match with_ledger(|l| l.state.get((serial as usize).wrapping_sub(1)).map(|s| s.0)) {
            Some(St::Plain) => Ok(serial),
            other => Err(format!("plain value with serial {} exposed, ledger says {:?}", serial, other)),
        }
    }
}

impl Default for PVal {
    fn default() -> Self {
        PVal::construct(0, true)
    }
}

/// Common interface of the zoo component types.
pub trait ZooComp: Component + Default + Send + Sync + 'static {
    const KIND: Kind;
    fn make(payload: u32) -> Self;
    /// `(serial, payload)`; `(0, 0)` for the zero-sized kind.
    fn ident(&self) -> (u64, u32);
    fn set_payload(&mut self, p: u32);
    /// Live + intact?
    fn check(&self) -> Result<(), String>;
}

macro_rules! zoo_comp {
    ($name:ident, $kind:expr, $storage:ty) => {
        #[derive(Default)]
        pub struct $name(pub Val);
        impl Component for $name {
            type Storage = $storage;
        }
        impl ZooComp for $name {
            const KIND: Kind = $kind;
            fn make(payload: u32) -> Self {
                $name(Val::new(payload))
            }
            fn ident(&self) -> (u64, u32) {
                (self.0.serial(), self.0.payload)
            }
            fn set_payload(&mut self, p: u32) {
                self.0.payload = p;
            }
            fn check(&self) -> Result<(), String> {
                self.0.check().map(|_| ())
            }
        }
    };
}

zoo_comp!(CVec, Kind::Vec, VecStorage<Self>);
zoo_comp!(CDense, Kind::Dense, DenseVecStorage<Self>);
// auxiliary component (not one of the kinds under test)
zoo_comp!(CAux, Kind::Vec, VecStorage<Self>);
zoo_comp!(CDefault, Kind::DefaultVec, DefaultVecStorage<Self>);
zoo_comp!(CHash, Kind::HashMap, HashMapStorage<Self>);
zoo_comp!(CBTree, Kind::BTree, BTreeStorage<Self>);
zoo_comp!(CFlagDense, Kind::FlaggedDense, FlaggedStorage<Self, DenseVecStorage<Self>>);
zoo_comp!(CFlagVec, Kind::FlaggedVec, FlaggedStorage<Self, VecStorage<Self>>);
zoo_comp!(CFlagHash, Kind::FlaggedHashMap, FlaggedStorage<Self, HashMapStorage<Self>>);
zoo_comp!(CDerefDense, Kind::DerefDense, DerefFlaggedStorage<Self, DenseVecStorage<Self>>);
zoo_comp!(CDerefVec, Kind::DerefVec, DerefFlaggedStorage<Self, VecStorage<Self>>);
zoo_comp!(CDerefBTree, Kind::DerefBTree, DerefFlaggedStorage<Self, BTreeStorage<Self>>);
zoo_comp!(CFlagBTree, Kind::FlaggedBTree, FlaggedStorage<Self, BTreeStorage<Self>>);
zoo_comp!(CFlagDefault, Kind::FlaggedDefault, FlaggedStorage<Self, DefaultVecStorage<Self>>);
zoo_comp!(CDerefHash, Kind::DerefHashMap, DerefFlaggedStorage<Self, HashMapStorage<Self>>);
zoo_comp!(CDerefDefault, Kind::DerefDefault, DerefFlaggedStorage<Self, DefaultVecStorage<Self>>);

macro_rules! plain_comp {
    ($name:ident, $kind:expr, $storage:ty) => {
        #[derive(Default)]
        pub struct $name(pub PVal);
        impl Component for $name {
            type Storage = $storage;
        }
        impl ZooComp for $name {
            const KIND: Kind = $kind;
            fn make(payload: u32) -> Self {
                $name(PVal::new(payload))
            }
            fn ident(&self) -> (u64, u32) {
                (self.0.serial(), self.0.payload)
            }
            fn set_payload(&mut self, p: u32) {
                self.0.payload = p;
            }
            fn check(&self) -> Result<(), String> {
                self.0.check().map(|_| ())
            }
        }
    };
}

plain_comp!(CPlainDense, Kind::PlainDense, DenseVecStorage<Self>);
plain_comp!(CPlainFlagDense, Kind::PlainFlagDense, FlaggedStorage<Self, DenseVecStorage<Self>>);
plain_comp!(CPlainDefault, Kind::PlainDefault, DefaultVecStorage<Self>);

/// Zero-sized components (for `NullStorage`, bare and inside the tracking wrappers); instances are
/// counted, not individually tracked.
macro_rules! zst_comp {
    ($name:ident, $kind:expr, $storage:ty) => {
        pub struct $name;

        impl Component for $name {
            type Storage = $storage;
        }

        impl Default for $name {
            fn default() -> Self {
                with_ledger(|l| l.zst_constructed += 1);
                $name
            }
        }

        impl Drop for $name {
            fn drop(&mut self) {
                let fire = with_ledger(|l| {
                    if l.caller_drop {
                        l.zst_by_caller += 1;
                        false
                    } else {
                        l.zst_by_library += 1;
                        if l.zst_by_caller + l.zst_by_library > l.zst_constructed {
                            l.errors.push(format!(
                                "more zero-sized components destroyed ({}) than constructed ({})",
                                l.zst_by_caller + l.zst_by_library,
                                l.zst_constructed
                            ));
                        }
                        if l.bomb_zst_ordinal == Some(l.zst_by_library) && !l.bomb_fired {
                            l.bomb_fired = true;
                            true
                        } else {
                            false
                        }
                    }
                });
                if fire {
                    panic!("verif-bomb: destructor of a zero-sized component panics");
                }
            }
        }

        impl ZooComp for $name {
            const KIND: Kind = $kind;
            fn make(_: u32) -> Self {
                $name::default()
            }
            fn ident(&self) -> (u64, u32) {
                (0, 0)
            }
            fn set_payload(&mut self, _: u32) {}
            fn check(&self) -> Result<(), String> {
                Ok(())
            }
        }
    };
}

zst_comp!(CNull, Kind::Null, NullStorage<Self>);
zst_comp!(CFlagNull, Kind::FlaggedNull, FlaggedStorage<Self, NullStorage<Self>>);
zst_comp!(CDerefNull, Kind::DerefNull, DerefFlaggedStorage<Self, NullStorage<Self>>);

/// `with_kind!(kind, f(args..))` calls `f::<C>(args..)` for the component type
/// of `kind`.
#[macro_export]
macro_rules! with_kind {
    ($kind:expr, $f:ident ( $($args:expr),* )) => {
        match $kind {
            $crate::zoo::Kind::Vec => $f::<$crate::zoo::CVec>($($args),*),
            $crate::zoo::Kind::Dense => $f::<$crate::zoo::CDense>($($args),*),
            $crate::zoo::Kind::DefaultVec => $f::<$crate::zoo::CDefault>($($args),*),
            $crate::zoo::Kind::HashMap => $f::<$crate::zoo::CHash>($($args),*),
            $crate::zoo::Kind::BTree => $f::<$crate::zoo::CBTree>($($args),*),
            $crate::zoo::Kind::Null => $f::<$crate::zoo::CNull>($($args),*),
            $crate::zoo::Kind::FlaggedDense => $f::<$crate::zoo::CFlagDense>($($args),*),
            $crate::zoo::Kind::FlaggedVec => $f::<$crate::zoo::CFlagVec>($($args),*),
            $crate::zoo::Kind::FlaggedHashMap => $f::<$crate::zoo::CFlagHash>($($args),*),
            $crate::zoo::Kind::DerefDense => $f::<$crate::zoo::CDerefDense>($($args),*),
            $crate::zoo::Kind::DerefVec => $f::<$crate::zoo::CDerefVec>($($args),*),
            $crate::zoo::Kind::DerefBTree => $f::<$crate::zoo::CDerefBTree>($($args),*),
            $crate::zoo::Kind::FlaggedBTree => $f::<$crate::zoo::CFlagBTree>($($args),*),
            $crate::zoo::Kind::FlaggedDefault => $f::<$crate::zoo::CFlagDefault>($($args),*),
            $crate::zoo::Kind::FlaggedNull => $f::<$crate::zoo::CFlagNull>($($args),*),
            $crate::zoo::Kind::DerefHashMap => $f::<$crate::zoo::CDerefHash>($($args),*),
            $crate::zoo::Kind::DerefDefault => $f::<$crate::zoo::CDerefDefault>($($args),*),
            $crate::zoo::Kind::DerefNull => $f::<$crate::zoo::CDerefNull>($($args),*),
            $crate::zoo::Kind::PlainDense => $f::<$crate::zoo::CPlainDense>($($args),*),
            $crate::zoo::Kind::PlainFlagDense => $f::<$crate::zoo::CPlainFlagDense>($($args),*),
            $crate::zoo::Kind::PlainDefault => $f::<$crate::zoo::CPlainDefault>($($args),*),
        }
    };
}
