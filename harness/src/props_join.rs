//! Join properties: C06 (sequential / lending joins), C07 (parallel joins),
//! C13 (restricted storages in joins), C16 (change sets).

use std::collections::{BTreeMap, BTreeSet};
use std::sync::Mutex;

use proptest::prelude::*;
use serde::{Deserialize, Serialize};
use serde_json::Value;
use specs::{
    hibitset::{BitSetAnd, BitSetLike, BitSetNot, BitSetOr, BitSetXor},
    join::verif_par_join_split_tree,
    prelude::*,
    rayon::{self, iter::ParallelIterator},
    storage::AccessMut,
    ChangeSet,
};

use crate::{
    engine::{parse_case, run_proptest, Property, ShardCtx, ShardResult, Stats, SubCheck, Tier, Verdict, Violation},
    ensure,
    joinworld::{self, build, Fetched, ItemVal, JoinWorld, Member, Membership, Res, ToItem, ToItems},
    zoo::{self, with_ledger, ZooComp},
};

use Member::{Not, Opt, OptPair, Req};

// ---------------------------------------------------------------------------
// recording

pub struct Rec {
    pub pattern: Vec<bool>,
    pub payload: u32,
    pub seen: Vec<(Vec<ItemVal>, bool)>,
    pub probes: Vec<Option<Vec<ItemVal>>>,
    /// results of get_unchecked(index) for the same probes
    pub probes_unchecked: Vec<Option<Vec<ItemVal>>>,
}

impl Rec {
    fn new(pattern: &[bool], payload: u32) -> Rec {
        Rec { pattern: if pattern.is_empty() { vec![false] } else { pattern.to_vec() }, payload, seen: vec![], probes: vec![], probes_unchecked: vec![] }
    }
    pub fn take<T: ToItems>(&mut self, it: &mut T) {
        let k = self.seen.len();
        let write = self.pattern[k % self.pattern.len()];
        let items = it.items();
        if write {
            it.touch_all(self.payload);
        }
        self.seen.push((items, write));
    }
}

type Runner = for<'a, 'b> fn(&'a mut Fetched<'b>, &mut Rec);
type Prober = for<'a, 'b> fn(&'a mut Fetched<'b>, &[Entity], &mut Rec);

pub struct Shape {
    pub name: &'static str,
    pub spec: Vec<Member>,
    pub join: Option<Runner>,
    pub lend: Runner,
    pub lend_each: Runner,
    pub probe: Option<Prober>,
    /// `join().count()`: the iterator adaptor must still visit (fetch) every index
    pub count: Option<fn(&mut Fetched) -> usize>,
    /// `join().skip(k).step_by(s)`: positioned through Iterator::nth
    pub stepped: Option<fn(&mut Fetched, &mut Rec, usize, usize)>,
    /// members that are consumed (drain / by-value change set): position -> resource
    pub consuming: bool,
}

macro_rules! shape {
    (@lend $f:ident, {$($pre:stmt;)*}, ($($m:expr),+)) => {
        |$f: &mut Fetched, rec: &mut Rec| {
            $($pre;)*
            let mut j = ($($m,)+).lend_join();
            while let Some(mut it) = j.next() {
                rec.take(&mut it);
            }
        }
    };
    (@each $f:ident, {$($pre:stmt;)*}, ($($m:expr),+)) => {
        |$f: &mut Fetched, rec: &mut Rec| {
            $($pre;)*
            ($($m,)+).lend_join().for_each(|mut it| rec.take(&mut it));
        }
    };
    (@probe $f:ident, {$($pre:stmt;)*}, ($($m:expr),+)) => {
        |$f: &mut Fetched, probes: &[Entity], rec: &mut Rec| {
            $($pre;)*
            let mut j = ($($m,)+).lend_join();
            for e in probes {
                let r = j.get(*e, &$f.ents2).map(|it| it.items());
                rec.probes.push(r);
                let r = j.get_unchecked(e.id()).map(|it| it.items());
                rec.probes_unchecked.push(r);
            }
        }
    };
    (both $name:expr; |$f:ident| {$($pre:stmt;)*} ($($m:expr),+); [$($spec:expr),+]) => {
        Shape {
            name: $name,
            spec: vec![$($spec),+],
            join: Some(|$f: &mut Fetched, rec: &mut Rec| {
                $($pre;)*
                for mut it in ($($m,)+).join() {
                    rec.take(&mut it);
                }
            }),
            lend: shape!(@lend $f, {$($pre;)*}, ($($m),+)),
            lend_each: shape!(@each $f, {$($pre;)*}, ($($m),+)),
            probe: Some(shape!(@probe $f, {$($pre;)*}, ($($m),+))),
            count: Some(|$f: &mut Fetched| {
                $($pre;)*
                ($($m,)+).join().count()
            }),
            stepped: Some(|$f: &mut Fetched, rec: &mut Rec, k: usize, st: usize| {
                $($pre;)*
                for mut it in ($($m,)+).join().skip(k).step_by(st) {
                    rec.take(&mut it);
                }
            }),
            consuming: false,
        }
    };
    (lend $name:expr; |$f:ident| {$($pre:stmt;)*} ($($m:expr),+); [$($spec:expr),+]) => {
        Shape {
            name: $name,
            spec: vec![$($spec),+],
            join: None,
            lend: shape!(@lend $f, {$($pre;)*}, ($($m),+)),
            lend_each: shape!(@each $f, {$($pre;)*}, ($($m),+)),
            probe: Some(shape!(@probe $f, {$($pre;)*}, ($($m),+))),
            count: None,
            stepped: None,
            consuming: false,
        }
    };
    (consume $name:expr; |$f:ident| {$($pre:stmt;)*} ($($m:expr),+); [$($spec:expr),+]) => {
        Shape {
            name: $name,
            spec: vec![$($spec),+],
            join: Some(|$f: &mut Fetched, rec: &mut Rec| {
                $($pre;)*
                for mut it in ($($m,)+).join() {
                    rec.take(&mut it);
                }
            }),
            lend: shape!(@lend $f, {$($pre;)*}, ($($m),+)),
            lend_each: shape!(@each $f, {$($pre;)*}, ($($m),+)),
            probe: None,
            count: Some(|$f: &mut Fetched| {
                $($pre;)*
                ($($m,)+).join().count()
            }),
            stepped: Some(|$f: &mut Fetched, rec: &mut Rec, k: usize, st: usize| {
                $($pre;)*
                for mut it in ($($m,)+).join().skip(k).step_by(st) {
                    rec.take(&mut it);
                }
            }),
            consuming: true,
        }
    };
}

const S0: Res = Res::S(0);
const S1: Res = Res::S(1);
const S2: Res = Res::S(2);
const S3: Res = Res::S(3);
const S4: Res = Res::S(4);
const S5: Res = Res::S(5);
const S6: Res = Res::S(6);
const S7: Res = Res::S(7);
const E: Res = Res::Ents;

pub fn shapes() -> Vec<Shape> {
    vec![
        shape!(both "s0"; |f| {} (&f.s0); [Req(S0)]),
        shape!(both "mut-s1"; |f| {} (&mut f.s1); [Req(S1)]),
        shape!(both "ents"; |f| {} (&f.ents); [Req(E)]),
        shape!(both "ents,s0,s1"; |f| {} (&f.ents, &f.s0, &f.s1); [Req(E), Req(S0), Req(S1)]),
        shape!(both "ents,mut-s0,s2"; |f| {} (&f.ents, &mut f.s0, &f.s2); [Req(E), Req(S0), Req(S2)]),
        shape!(both "mut-s2,mut-s3"; |f| {} (&mut f.s2, &mut f.s3); [Req(S2), Req(S3)]),
        shape!(both "mut-s4,s5,ents"; |f| {} (&mut f.s4, &f.s5, &f.ents); [Req(S4), Req(S5), Req(E)]),
        shape!(both "mut-s5,mut-s6,s0"; |f| {} (&mut f.s5, &mut f.s6, &f.s0); [Req(S5), Req(S6), Req(S0)]),
        shape!(both "s6,s7"; |f| {} (&f.s6, &f.s7); [Req(S6), Req(S7)]),
        shape!(lend "mut-s7,ents"; |f| {} (&mut f.s7, &f.ents); [Req(S7), Req(E)]),
        shape!(lend "mut-s7,mut-s0,not-s1"; |f| {} (&mut f.s7, &mut f.s0, !&f.s1); [Req(S7), Req(S0), Not(S1)]),
        shape!(both "ents,not-s1"; |f| {} (&f.ents, !&f.s1); [Req(E), Not(S1)]),
        shape!(both "s0,not-s1,not-s2"; |f| {} (&f.s0, !&f.s1, !&f.s2); [Req(S0), Not(S1), Not(S2)]),
        shape!(both "mut-s3,not-s5"; |f| {} (&mut f.s3, !&f.s5); [Req(S3), Not(S5)]),
        shape!(both "ents,maybe-s2"; |f| {} (&f.ents, (&f.s2).maybe()); [Req(E), Opt(S2)]),
        shape!(both "ents,maybe-mut-s3,s0"; |f| {} (&f.ents, (&mut f.s3).maybe(), &f.s0); [Req(E), Opt(S3), Req(S0)]),
        shape!(both "s1,maybe-s0,maybe-mut-s4,not-s6"; |f| {} (&f.s1, (&f.s0).maybe(), (&mut f.s4).maybe(), !&f.s6); [Req(S1), Opt(S0), Opt(S4), Not(S6)]),
        shape!(lend "ents,maybe-mut-s7"; |f| {} (&f.ents, (&mut f.s7).maybe()); [Req(E), Opt(S7)]),
        shape!(both "ents,maybe-pair(s0,maybe-s1)"; |f| {} (&f.ents, (&f.s0, (&f.s1).maybe()).maybe()); [Req(E), OptPair(S0, S1)]),
        shape!(both "s2,maybe-pair(s3,maybe-s6),not-s1"; |f| {} (&f.s2, (&f.s3, (&f.s6).maybe()).maybe(), !&f.s1); [Req(S2), OptPair(S3, S6), Not(S1)]),
        shape!(both "b0"; |f| {} (f.b0); [Req(Res::B(0))]),
        shape!(both "b0,s0"; |f| {} (f.b0, &f.s0); [Req(Res::B(0)), Req(S0)]),
        shape!(both "ab,ents"; |f| {} (f.ab, &f.ents); [Req(Res::B(2)), Req(E)]),
        shape!(both "b2-owned,mut-s1"; |f| {} (f.b2.clone(), &mut f.s1); [Req(Res::B(2)), Req(S1)]),
        shape!(both "and(b0,b1),ents"; |f| {} (BitSetAnd(f.b0, f.b1), &f.ents); [Req(Res::AndB01), Req(E)]),
        shape!(both "or(b0,b1),s2"; |f| {} (BitSetOr(f.b0, f.b1), &f.s2); [Req(Res::OrB01), Req(S2)]),
        shape!(both "xor(b0,b1),ents"; |f| {} (BitSetXor(f.b0, f.b1), &f.ents); [Req(Res::XorB01), Req(E)]),
        shape!(both "not(b0),s3"; |f| {} (BitSetNot(f.b0), &f.s3); [Req(Res::NotB0), Req(S3)]),
        shape!(both "ref-and(b0,b1),mut-s0"; |f| {let a = BitSetAnd(f.b0, f.b1);} (&a, &mut f.s0); [Req(Res::AndB01), Req(S0)]),
        shape!(both "ref-or,ref-not,ents"; |f| {let o = BitSetOr(f.b0, f.b1); let n = BitSetNot(f.b0);} (&o, &n, &f.ents); [Req(Res::OrB01), Req(Res::NotB0), Req(E)]),
        shape!(both "dyn-bitset,s1"; |f| {let d: &dyn BitSetLike = f.b1;} (d, &f.s1); [Req(Res::B(1)), Req(S1)]),
        shape!(both "restrict-s0"; |f| {let r = f.s0.restrict();} (&r); [Req(S0)]),
        shape!(both "restrict-s6,ents,not-s2"; |f| {let r = f.s6.restrict();} (&r, &f.ents, !&f.s2); [Req(S6), Req(E), Not(S2)]),
        shape!(both "restrict-mut-s1,s0"; |f| {let mut r = f.s1.restrict_mut();} (&mut r, &f.s0); [Req(S1), Req(S0)]),
        shape!(both "ents,restrict-mut-s6"; |f| {let mut r = f.s6.restrict_mut();} (&f.ents, &mut r); [Req(E), Req(S6)]),
        shape!(lend "restrict-mut-s7,maybe-s1"; |f| {let mut r = f.s7.restrict_mut();} (&mut r, (&f.s1).maybe(), &f.ents); [Req(S7), Opt(S1), Req(E)]),
        shape!(both "cs-ref,s0"; |f| {} (f.cs.as_ref().unwrap(), &f.s0); [Req(Res::Changes), Req(S0)]),
        shape!(both "cs-mut,mut-s1,ents"; |f| {} (f.cs.as_mut().unwrap(), &mut f.s1, &f.ents); [Req(Res::Changes), Req(S1), Req(E)]),
        shape!(consume "cs-owned,ents"; |f| {} (f.cs.take().unwrap(), &f.ents); [Req(Res::Changes), Req(E)]),
        shape!(consume "drain-s2,ents"; |f| {} (f.s2.drain(), &f.ents); [Req(S2), Req(E)]),
        shape!(consume "drain-s0,not-s1,maybe-s3"; |f| {} (f.s0.drain(), !&f.s1, (&f.s3).maybe()); [Req(S0), Not(S1), Opt(S3)]),
        shape!(consume "drain-s6,b0"; |f| {} (f.s6.drain(), f.b0); [Req(S6), Req(Res::B(0))]),
        shape!(lend "entries-s4,ents"; |f| {} (f.s4.entries(), &f.ents); [Opt(S4), Req(E)]),
        shape!(both "arity8"; |f| {} (&f.ents, &f.s0, &mut f.s1, (&f.s2).maybe(), !&f.s3, &f.s4, f.b0, (&mut f.s6).maybe());
            [Req(E), Req(S0), Req(S1), Opt(S2), Not(S3), Req(S4), Req(Res::B(0)), Opt(S6)]),
        shape!(both "arity12"; |f| {} (&f.ents, (&f.s0).maybe(), (&mut f.s1).maybe(), (&f.s2).maybe(), (&mut f.s3).maybe(), (&f.s4).maybe(), (&f.s5).maybe(), (&mut f.s6).maybe(), (&f.s7).maybe(), f.b2, &f.ents, !&f.s5);
            [Req(E), Opt(S0), Opt(S1), Opt(S2), Opt(S3), Opt(S4), Opt(S5), Opt(S6), Opt(S7), Req(Res::B(2)), Req(E), Not(S5)]),
        shape!(both "arity16"; |f| {let o = BitSetOr(f.b0, f.b1);} (&f.ents, &f.s0, (&f.s1).maybe(), (&mut f.s2).maybe(), (&f.s3).maybe(), (&mut f.s4).maybe(), (&f.s5).maybe(), (&mut f.s6).maybe(), (&f.s7).maybe(), &o, &f.ents, f.b0, &o, &f.ents, f.ab, &f.ents);
            [Req(E), Req(S0), Opt(S1), Opt(S2), Opt(S3), Opt(S4), Opt(S5), Opt(S6), Opt(S7), Req(Res::OrB01), Req(E), Req(Res::B(0)), Req(Res::OrB01), Req(E), Req(Res::B(2)), Req(E)]),
        shape!(both "arity15"; |f| {} (&f.s0, &f.ents, &f.ents, &f.ents, &f.ents, &f.ents, &f.ents, &f.ents, &f.ents, &f.ents, &f.ents, &f.ents, &f.ents, &f.ents, &mut f.s1);
            [Req(S0), Req(E), Req(E), Req(E), Req(E), Req(E), Req(E), Req(E), Req(E), Req(E), Req(E), Req(E), Req(E), Req(E), Req(S1)]),
    ]
}

// ---------------------------------------------------------------------------
// C06

#[derive(Clone, Debug, Serialize, Deserialize, Hash, PartialEq, Eq)]
pub struct JoinCase {
    pub shape: u16,
    pub membership: Membership,
    pub pattern: Vec<bool>,
}

pub fn join_case() -> impl Strategy<Value = JoinCase> {
    (any::<u16>(), joinworld::membership(), proptest::collection::vec(any::<bool>(), 1..5)).prop_map(|(shape, membership, pattern)| JoinCase { shape, membership, pattern })
}

fn vio(p: &str, s: &str, m: String) -> Violation {
    Violation::new(p, s, m)
}

/// Expected item for one member at index `i`.
fn expected_item(jw: &JoinWorld, m: &Member, i: u32) -> ItemVal {
    let model = &jw.model;
    let comp = |k: usize| -> ItemVal {
        let (s, p) = model.vals[k][&i];
        ItemVal::Comp(s, p)
    };
    match m {
        Req(Res::Ents) => {
            let e = model.handles[&i];
            ItemVal::Ent(e.id(), e.gen().id())
        }
        Req(Res::S(k)) => comp(*k),
        Req(Res::Changes) => ItemVal::Num(model.changes[&i]),
        Req(_) => ItemVal::Idx(i),
        Not(_) => ItemVal::Unit,
        Opt(Res::S(k)) => {
            if model.masks[*k].contains(&i) {
                ItemVal::Opt(Some(Box::new(comp(*k))))
            } else {
                ItemVal::Opt(None)
            }
        }
        Opt(_) => ItemVal::Opt(None),
        OptPair(Res::S(a), Res::S(b)) => {
            if model.masks[*a].contains(&i) {
                let inner = if model.masks[*b].contains(&i) { ItemVal::Opt(Some(Box::new(comp(*b)))) } else { ItemVal::Opt(None) };
                ItemVal::Opt(Some(Box::new(ItemVal::Tup(vec![comp(*a), inner]))))
            } else {
                ItemVal::Opt(None)
            }
        }
        OptPair(..) => ItemVal::Opt(None),
    }
}

#[derive(Default)]
struct JoinFacts {
    nontrivial: bool,
    expected_len: usize,
}

const PAYLOAD: u32 = 424_242;

/// Runs one execution mode of a shape on a freshly built world and checks it.
fn run_mode(case: &JoinCase, shape: &Shape, mode: u8, prop: &'static str) -> Result<JoinFacts, Violation> {
    let mut jw = build(&case.membership);
    let expected = jw.model.expected(&shape.spec);
    let mut rec = Rec::new(&case.pattern, PAYLOAD);
    // probes for the lending get(): live members, live non-members, dead handles
    let mut probes: Vec<Entity> = vec![];
    if mode == 3 {
        let ex: BTreeSet<u32> = expected.iter().cloned().collect();
        probes.extend(expected.iter().filter_map(|i| jw.model.handles.get(i)).take(3).cloned());
        probes.extend(jw.model.handles.iter().filter(|(i, _)| !ex.contains(i)).take(3).map(|(_, e)| *e));
        probes.extend(jw.model.dead_handles.iter().take(4).cloned());
        // lookups by entity are random access: ascending, descending, or back and forth
        match case.pattern.len() % 3 {
            1 => probes.reverse(),
            2 => {
                let n = probes.len();
                probes = (0..n).map(|k| if k % 2 == 0 { probes[k / 2] } else { probes[n - 1 - k / 2] }).collect();
            }
            _ => {}
        }
    }
    let mut counted: Option<usize> = None;
    // mode 5: skip / stride derived from the case
    let skip_k = case.pattern.len() % 3;
    let step_s = 1 + (case.pattern.iter().filter(|b| **b).count() % 3);
    let all_expected = expected.clone();
    let expected: Vec<u32> = if mode == 5 { expected.iter().skip(skip_k).step_by(step_s).cloned().collect() } else { expected };
    {
        let mut f = jw.fetch();
        match mode {
            0 => (shape.join.expect("join mode"))(&mut f, &mut rec),
            1 => (shape.lend)(&mut f, &mut rec),
            2 => (shape.lend_each)(&mut f, &mut rec),
            3 => (shape.probe.expect("probe mode"))(&mut f, &probes, &mut rec),
            4 => counted = Some((shape.count.expect("count mode"))(&mut f)),
            _ => (shape.stepped.expect("stepped mode"))(&mut f, &mut rec, skip_k, step_s),
        }
    }
    if let Some(n) = counted {
        ensure!(prop, if n < expected.len() { "join-missing-items" } else { "join-extra-items" }, n == expected.len(),
            "shape [{}] via join().count() = {}, the intersection has {} indices", shape.name, n, expected.len());
        // nothing was written; consumed members must have been visited all the same
        rec.seen = expected.iter().map(|i| (shape.spec.iter().map(|m| expected_item(&jw, m, *i)).collect(), false)).collect();
    }
    let mode_name = ["join()", "lend_join().next()", "lend_join().for_each()", "lend_join().get()", "join().count()", "join().skip(k).step_by(s)"][mode as usize];
    let ctx = format!("shape [{}] via {}", shape.name, mode_name);
    let errs = with_ledger(|l| l.take_errors());
    if let Some(e) = errs.first() {
        return Err(vio("C08", "ledger", format!("{}: {}", ctx, e)));
    }
    if mode == 3 {
        for (e, got) in probes.iter().zip(rec.probes.iter()) {
            let alive = jw.model.handles.get(&e.id()) == Some(e);
            let member = alive && expected.binary_search(&e.id()).is_ok();
            ensure!(if alive { prop } else { "C03" }, "lend-get", got.is_some() == member,
                "{}: get({:?}) returned {:?} but alive={} in-intersection={}", ctx, e, got, alive, member);
            if let Some(items) = got {
                let want: Vec<ItemVal> = shape.spec.iter().map(|m| expected_item(&jw, m, e.id())).collect();
                ensure!(prop, "lend-get-items", items == &want, "{}: get({:?}) yields {:?}, expected {:?}", ctx, e, items, want);
            }
        }
        // get_unchecked looks at the index only: Some exactly for indices of the intersection, with that
        // index's items (for a dead handle on a recycled index: the current occupant's)
        for (e, got) in probes.iter().zip(rec.probes_unchecked.iter()) {
            let member = expected.binary_search(&e.id()).is_ok();
            ensure!(prop, "lend-get-unchecked", got.is_some() == member,
                "{}: get_unchecked({}) returned {:?} but in-intersection={}", ctx, e.id(), got, member);
            if let Some(items) = got {
                let want: Vec<ItemVal> = shape.spec.iter().map(|m| expected_item(&jw, m, e.id())).collect();
                ensure!(prop, "lend-get-unchecked-items", items == &want, "{}: get_unchecked({}) yields {:?}, expected {:?}", ctx, e.id(), items, want);
            }
        }
        return Ok(JoinFacts::default());
    }
    // sequence
    ensure!(prop, if rec.seen.len() < expected.len() { "join-missing-items" } else { "join-extra-items" }, rec.seen.len() == expected.len(),
        "{}: yielded {} items, the intersection has {} indices {:?}; first items {:?}", ctx, rec.seen.len(), expected.len(),
        expected.iter().take(12).collect::<Vec<_>>(), rec.seen.iter().take(6).map(|s| &s.0).collect::<Vec<_>>());
    for (k, i) in expected.iter().enumerate() {
        let want: Vec<ItemVal> = shape.spec.iter().map(|m| expected_item(&jw, m, *i)).collect();
        ensure!(prop, "join-item", rec.seen[k].0 == want,
            "{}: item #{} is {:?}, expected index {} with {:?} (ascending order, each index once)", ctx, k, rec.seen[k].0, i, want);
    }
    // effects: writes through items, drained members, everything else untouched
    let mut want_vals = jw.model.vals.clone();
    let mut want_changes = jw.model.changes.clone();
    if mode == 5 {
        // items passed over by skip / step_by were fetched and discarded: a drained member loses them too
        for (pos, m) in shape.spec.iter().enumerate() {
            if let Req(Res::S(s)) | Opt(Res::S(s)) = m {
                if member_is_drain(shape.name, pos) {
                    for i in &all_expected {
                        want_vals[*s].remove(i);
                    }
                }
            }
        }
    }
    for (k, i) in expected.iter().enumerate() {
        let wrote = rec.seen[k].1;
        for (pos, m) in shape.spec.iter().enumerate() {
            let mutable = member_is_mut(shape.name, pos);
            match m {
                Req(Res::S(s)) | Opt(Res::S(s)) => {
                    if member_is_drain(shape.name, pos) {
                        want_vals[*s].remove(i);
                    } else if wrote && mutable && *s != 5 {
                        if let Some(x) = want_vals[*s].get_mut(i) {
                            x.1 = PAYLOAD;
                        }
                    }
                }
                Req(Res::Changes) => {
                    if wrote && mutable {
                        *want_changes.get_mut(i).unwrap() += PAYLOAD as i64;
                    }
                }
                _ => {}
            }
        }
    }
    for s in 0..joinworld::N_STORAGES {
        let got = jw.contents(s);
        if got != want_vals[s] {
            let diff: Vec<u32> = got.keys().chain(want_vals[s].keys()).filter(|i| got.get(i) != want_vals[s].get(i)).cloned().take(6).collect();
            return Err(vio(prop, "join-effects", format!(
                "{}: after the join storage #{} differs from the expectation at indices {:?} (got {:?}, expected {:?}); writes through items must be visible on exactly those entities, drained members must lose exactly the visited indices",
                ctx, s, diff, diff.iter().map(|i| got.get(i)).collect::<Vec<_>>(), diff.iter().map(|i| want_vals[s].get(i)).collect::<Vec<_>>())));
        }
        // direct lookup agrees
        for (i, id) in got.iter().take(50) {
            if let Some(e) = jw.model.handles.get(i) {
                ensure!(prop, "lookup", jw.lookup(s, *e) == Some(*id), "{}: get({:?}) in storage #{} differs from the join view {:?}", ctx, e, s, id);
            }
        }
    }
    if let Some(cs) = jw.cs.as_ref() {
        let got: BTreeMap<u32, i64> = {
            let ents = jw.world.entities();
            let _ = &ents;
            let mut m = BTreeMap::new();
            for (i, v) in (&jw.b_all(), cs).join() {
                m.insert(i, *v);
            }
            m
        };
        ensure!(prop, "changeset-effects", got == want_changes, "{}: change set after the join is {:?}, expected {:?}", ctx, got, want_changes);
    }
    let words: BTreeSet<u32> = expected.iter().map(|i| i / 64).collect();
    let full = shape.spec.iter().filter_map(|m| if let Req(r) = m { if *r != Res::NotB0 { Some(jw.model.set_of(*r).len()) } else { None } } else { None }).min().unwrap_or(0);
    Ok(JoinFacts { nontrivial: shape.spec.len() >= 2 && !expected.is_empty() && expected.len() < full && words.len() >= 2, expected_len: expected.len() })
}

impl JoinWorld {
    /// bit set of every index a change set could mention
    fn b_all(&self) -> BitSet {
        let mut b = BitSet::new();
        for i in self.model.alive.iter() {
            b.add(*i);
        }
        b
    }
}

/// Which tuple positions are mutable / draining, derived from the shape name
/// (the name lists the members in order).
fn member_is_mut(name: &str, pos: usize) -> bool {
    if name.starts_with("arity") {
        return match name {
            "arity8" => [2, 7].contains(&pos),
            "arity12" => [2, 4, 7].contains(&pos),
            "arity16" => [3, 5, 7].contains(&pos),
            "arity15" => pos == 14,
            _ => false,
        };
    }
    split_members(name).get(pos).map(|m| m.contains("mut")).unwrap_or(false)
}

fn member_is_drain(name: &str, pos: usize) -> bool {
    split_members(name).get(pos).map(|m| m.starts_with("drain")).unwrap_or(false)
}

/// Splits a shape name at top-level commas ("and(b0,b1),ents" has two members).
fn split_members(name: &str) -> Vec<String> {
    let mut out = vec![String::new()];
    let mut depth = 0;
    for ch in name.chars() {
        match ch {
            '(' => {
                depth += 1;
                out.last_mut().unwrap().push(ch);
            }
            ')' => {
                depth -= 1;
                out.last_mut().unwrap().push(ch);
            }
            ',' if depth == 0 => out.push(String::new()),
            _ => out.last_mut().unwrap().push(ch),
        }
    }
    out
}

fn c06_one(case: &JoinCase, stats: &mut Stats, prop: &'static str, filter: fn(&Shape) -> bool) -> Verdict {
    let all = shapes();
    let cands: Vec<&Shape> = all.iter().filter(|s| filter(s)).collect();
    let shape = cands[(case.shape as usize * cands.len()) >> 16];
    let mut facts = JoinFacts::default();
    for mode in 0u8..6 {
        if mode == 0 && shape.join.is_none() {
            continue;
        }
        if mode == 4 && shape.count.is_none() {
            continue;
        }
        if mode == 5 && shape.stepped.is_none() {
            continue;
        }
        if mode == 3 && shape.probe.is_none() {
            continue;
        }
        let f = run_mode(case, shape, mode, prop)?;
        if mode < 3 {
            facts = f;
        }
    }
    stats.label(&format!("shape.{}", shape.name));
    stats.label(&format!("scale.{}", case.membership.scale));
    if facts.expected_len == 0 {
        stats.label("empty_intersection");
    }
    stats.case(case, facts.nontrivial);
    Ok(())
}

fn c06_run(ctx: &ShardCtx) -> ShardResult {
    let cases = ctx.tier.pick(500, 12_000);
    run_proptest(ctx, join_case(), cases, 6, |c, stats| c06_one(c, stats, "C06", |_| true))
}

fn c06_replay(v: &Value) -> Verdict {
    let c: JoinCase = parse_case("join", v)?;
    let mut s = Stats::default();
    c06_one(&c, &mut s, "C06", |_| true)
}

pub fn c06() -> Property {
    Property {
        id: "C06",
        subs: vec![SubCheck {
            name: "joins",
            shards: |t: Tier| t.pick(8, 16),
            run: c06_run,
            replay: c06_replay,
            rule: "a catalogue of 47 join shapes (arity 1..16 (the largest the BitAnd impls support); shared and mutable storages of eight kinds, entities, BitSet / AtomicBitSet / And / Or / Xor / Not / dyn bit sets by value and by reference, negated storages, maybe() shared and mutable, restricted storages, change sets by reference / mutably / by value, drains, entries()) x generated membership per member (boundary atoms around 63/64, 4095/4096, 262143/262144, 524287/524288 + random runs + singles, inverted = nearly full, dead / pending-dead / reused / not-yet-merged entities) x a generated subset of items written through; each shape is executed as join(), lend_join().next(), lend_join().for_each() and probed with lend_join().get() for live members, live non-members and dead handles; oracle: model intersection in ascending order, each index once, items equal to the model values and to direct lookups, optional members Some iff in mask, writes visible exactly on the written entities, drained / consumed members lose exactly the visited indices; non-trivial = >= 2 members, non-empty and non-full intersection touching >= 2 layer-0 words",
            exe_env: None,
        }],
        crash_is_violation: true,
        assumptions: &["hibitset's BitSetLike iteration is trusted (ascending, no repeats)", "the set model in harness/src/joinworld.rs"],
    }
}

// ---------------------------------------------------------------------------
// C07: parallel joins

type ParRunner = for<'a, 'b> fn(&'a mut Fetched<'b>, u8) -> Vec<Vec<ItemVal>>;
type SplitRunner = for<'a, 'b> fn(&'a mut Fetched<'b>, &[bool], usize) -> (usize, Vec<(usize, Vec<ItemVal>)>);

pub struct ParShape {
    pub name: &'static str,
    pub spec: Vec<Member>,
    pub muts: &'static [usize],
    pub par: ParRunner,
    pub split: SplitRunner,
    pub seq: Runner,
}

fn bump<T: ToItems>(it: &mut T) -> Vec<ItemVal> {
    let v = it.items();
    it.touch_all(u32::MAX);
    v
}

macro_rules! par_shape {
    ($name:expr; |$f:ident| {$($pre:stmt;)*} ($($m:expr),+); [$($spec:expr),+]; muts $muts:expr) => {
        ParShape {
            name: $name,
            spec: vec![$($spec),+],
            muts: &$muts,
            par: |$f: &mut Fetched, variant: u8| {
                $($pre;)*
                match variant % 3 {
                    0 => ($($m,)+).par_join().map(|mut it| bump(&mut it)).collect::<Vec<_>>(),
                    1 => {
                        let out = Mutex::new(vec![]);
                        ($($m,)+).par_join().for_each(|mut it| {
                            let v = bump(&mut it);
                            out.lock().unwrap().push(v);
                        });
                        out.into_inner().unwrap()
                    }
                    _ => ($($m,)+)
                        .par_join()
                        .fold(Vec::new, |mut acc, mut it| {
                            acc.push(bump(&mut it));
                            acc
                        })
                        .reduce(Vec::new, |mut a, mut b| {
                            a.append(&mut b);
                            a
                        }),
                }
            },
            split: |$f: &mut Fetched, decisions: &[bool], full_depth: usize| {
                $($pre;)*
                let mut k = 0usize;
                let mut out = vec![];
                let leaves = verif_par_join_split_tree(
                    ($($m,)+),
                    |depth| {
                        if depth < full_depth {
                            return true;
                        }
                        let d = depth < 24 && decisions.get(k).cloned().unwrap_or(false);
                        k += 1;
                        d
                    },
                    |leaf, mut it| out.push((leaf, bump(&mut it))),
                );
                (leaves, out)
            },
            seq: |$f: &mut Fetched, rec: &mut Rec| {
                $($pre;)*
                for mut it in ($($m,)+).join() {
                    rec.take(&mut it);
                }
            },
        }
    };
}

pub fn par_shapes() -> Vec<ParShape> {
    vec![
        par_shape!("s0"; |f| {} (&f.s0); [Req(S0)]; muts []),
        par_shape!("mut-s0"; |f| {} (&mut f.s0); [Req(S0)]; muts [0]),
        par_shape!("ents,mut-s1,s0"; |f| {} (&f.ents, &mut f.s1, &f.s0); [Req(E), Req(S1), Req(S0)]; muts [1]),
        par_shape!("mut-s2,mut-s3,ents"; |f| {} (&mut f.s2, &mut f.s3, &f.ents); [Req(S2), Req(S3), Req(E)]; muts [0, 1]),
        par_shape!("mut-s4,s6,not-s1"; |f| {} (&mut f.s4, &f.s6, !&f.s1); [Req(S4), Req(S6), Not(S1)]; muts [0]),
        par_shape!("mut-s5,ents"; |f| {} (&mut f.s5, &f.ents); [Req(S5), Req(E)]; muts [0]),
        par_shape!("ents,maybe-mut-s0,maybe-s7"; |f| {} (&f.ents, (&mut f.s0).maybe(), (&f.s7).maybe()); [Req(E), Opt(S0), Opt(S7)]; muts [1]),
        par_shape!("s2,maybe-pair(s0,maybe-s1)"; |f| {} (&f.s2, (&f.s0, (&f.s1).maybe()).maybe()); [Req(S2), OptPair(S0, S1)]; muts []),
        par_shape!("b0,mut-s3"; |f| {} (f.b0, &mut f.s3); [Req(Res::B(0)), Req(S3)]; muts [1]),
        par_shape!("ab,ents,not-s2"; |f| {} (f.ab, &f.ents, !&f.s2); [Req(Res::B(2)), Req(E), Not(S2)]; muts []),
        par_shape!("or(b0,b1),mut-s1"; |f| {} (BitSetOr(f.b0, f.b1), &mut f.s1); [Req(Res::OrB01), Req(S1)]; muts [1]),
        par_shape!("restrict-s7,ents"; |f| {let r = f.s7.restrict();} (&r, &f.ents); [Req(S7), Req(E)]; muts []),
        par_shape!("restrict-mut-s0,s1"; |f| {let mut r = f.s0.restrict_mut();} (&mut r, &f.s1); [Req(S0), Req(S1)]; muts [0]),
        par_shape!("ents,restrict-mut-s3,maybe-mut-s4"; |f| {let mut r = f.s3.restrict_mut();} (&f.ents, &mut r, (&mut f.s4).maybe()); [Req(E), Req(S3), Opt(S4)]; muts [1, 2]),
        par_shape!("arity9"; |f| {} (&f.ents, &mut f.s0, &mut f.s1, &mut f.s2, (&mut f.s3).maybe(), (&mut f.s4).maybe(), (&f.s6).maybe(), !&f.s5, f.b2);
            [Req(E), Req(S0), Req(S1), Req(S2), Opt(S3), Opt(S4), Opt(S6), Not(S5), Req(Res::B(2))]; muts [1, 2, 3, 4, 5]),
    ]
}

#[derive(Clone, Debug, Serialize, Deserialize, Hash, PartialEq, Eq)]
pub struct ParCase {
    pub shape: u16,
    pub membership: Membership,
    /// Some(threads): real rayon pool; None: owned split tree with these decisions
    pub threads: Option<u16>,
    pub variant: u8,
    pub decisions: Vec<bool>,
    /// owned split tree: split unconditionally down to this depth, then follow `decisions`
    pub full_depth: u8,
}

const POOLS: [usize; 8] = [1, 2, 3, 4, 7, 16, 64, 256];

fn par_case() -> impl Strategy<Value = ParCase> {
    (
        any::<u16>(),
        joinworld::membership(),
        proptest::option::weighted(0.5, 0u16..8),
        0u8..3,
        proptest::collection::vec(prop::bool::weighted(0.7), 0..40),
        prop_oneof![3 => Just(0u8), 2 => 1u8..6, 2 => 6u8..15],
    )
        .prop_map(|(shape, membership, threads, variant, decisions, full_depth)| ParCase { shape, membership, threads, variant, decisions, full_depth })
}

thread_local! {
    static POOL_CACHE: std::cell::RefCell<BTreeMap<usize, std::sync::Arc<rayon::ThreadPool>>> = std::cell::RefCell::new(BTreeMap::new());
}

fn pool(n: usize) -> std::sync::Arc<rayon::ThreadPool> {
    POOL_CACHE.with(|c| {
        c.borrow_mut()
            .entry(n)
            .or_insert_with(|| std::sync::Arc::new(rayon::ThreadPoolBuilder::new().num_threads(n).stack_size(256 * 1024).build().expect("rayon pool")))
            .clone()
    })
}

fn c07_one(case: &ParCase, stats: &mut Stats, prop: &'static str, filter: fn(&ParShape) -> bool) -> Verdict {
    let all = par_shapes();
    let cands: Vec<&ParShape> = all.iter().filter(|s| filter(s)).collect();
    let shape = cands[(case.shape as usize * cands.len()) >> 16];
    // sequential reference on its own world (also checked against the model)
    let mut jw_seq = build(&case.membership);
    let expected = jw_seq.model.expected(&shape.spec);
    let mut rec = Rec::new(&[false], 0);
    {
        let mut f = jw_seq.fetch();
        (shape.seq)(&mut f, &mut rec);
    }
    let seq_items: Vec<Vec<ItemVal>> = rec.seen.into_iter().map(|s| s.0).collect();
    ensure!("C06", "join-item-count", seq_items.len() == expected.len(), "sequential join of [{}] yields {} items, model {}", shape.name, seq_items.len(), expected.len());
    drop(jw_seq);

    let mut jw = build(&case.membership);
    let before: Vec<BTreeMap<u32, joinworld::Ident>> = (0..joinworld::N_STORAGES).map(|s| jw.contents(s)).collect();
    let (ctx, mut got, leaves): (String, Vec<Vec<ItemVal>>, usize) = match case.threads {
        Some(t) => {
            let n = POOLS[t as usize % POOLS.len()];
            let p = pool(n);
            let variant = case.variant;
            let jwr = &mut jw;
            let items = p.install(move || {
                let mut f = jwr.fetch();
                (shape.par)(&mut f, variant)
            });
            (format!("par_join of [{}] on a pool of {} threads (variant {})", shape.name, n, ["map+collect", "for_each", "fold+reduce"][variant as usize % 3]), items, n)
        }
        None => {
            let mut f = jw.fetch();
            let (leaves, items) = (shape.split)(&mut f, &case.decisions, case.full_depth as usize);
            // leaves must partition the sequential sequence: leaf numbers ascending <=> contiguous
            let seq_only: Vec<Vec<ItemVal>> = items.iter().map(|x| x.1.clone()).collect();
            let _ = seq_only;
            (format!("split tree of [{}] with {} leaves (split fully to depth {}, then decisions {:?})", shape.name, leaves, case.full_depth, case.decisions), items.into_iter().map(|x| x.1).collect(), leaves)
        }
    };
    let errs = with_ledger(|l| l.take_errors());
    if let Some(e) = errs.first() {
        return Err(vio("C08", "ledger", format!("{}: {}", ctx, e)));
    }
    // multiset equality with the sequential join
    let mut want = seq_items.clone();
    want.sort_by_cached_key(|a| format!("{:?}", a));
    got.sort_by_cached_key(|a| format!("{:?}", a));
    if got != want {
        // (hash set: the lists can hold hundreds of thousands of items)
        let got_set: std::collections::HashSet<&Vec<ItemVal>> = got.iter().collect();
        let missing = want.iter().filter(|w| !got_set.contains(w)).take(3).collect::<Vec<_>>();
        let mut dups = vec![];
        for w in got.windows(2) {
            if w[0] == w[1] && dups.len() < 3 {
                dups.push(w[0].clone());
            }
        }
        let sig = if got.len() < want.len() { "par-missing-items" } else if got.len() > want.len() { "par-duplicate-items" } else { "par-different-items" };
        return Err(vio(prop, sig, format!("{}: delivered {} items, the sequential join {}; missing e.g. {:?}; delivered twice e.g. {:?}", ctx, got.len(), want.len(), missing, dups)));
    }
    // every mutable member was bumped exactly once on the intersection, nothing else changed
    let mut want_vals = before.clone();
    for i in &expected {
        for pos in shape.muts {
            match shape.spec[*pos] {
                Req(Res::S(s)) | Opt(Res::S(s)) => {
                    if s != 5 {
                        if let Some(x) = want_vals[s].get_mut(i) {
                            x.1 = u32::MAX;
                        }
                    }
                }
                _ => {}
            }
        }
    }
    for s in 0..joinworld::N_STORAGES {
        let now = jw.contents(s);
        if now != want_vals[s] {
            let diff: Vec<u32> = now.keys().chain(want_vals[s].keys()).filter(|i| now.get(i) != want_vals[s].get(i)).cloned().take(6).collect();
            return Err(vio(prop, "par-effects", format!("{}: after the join storage #{} differs from the expectation at indices {:?}: the workers' writes must be visible on exactly the joined entities", ctx, s, diff)));
        }
    }
    let l1: BTreeSet<u32> = expected.iter().map(|i| i / 4096).collect();
    stats.label(&format!("shape.{}", shape.name));
    stats.label(if case.threads.is_some() { "real_pool" } else { "owned_split_tree" });
    stats.label(&format!("scale.{}", case.membership.scale));
    if leaves >= 3 {
        stats.label("leaves>=3");
    }
    if leaves >= 1024 {
        stats.label("leaves>=1024");
    }
    if expected.len() >= 65_536 {
        stats.label("intersection>=65536");
    }
    stats.case(case, expected.len() >= 2 && l1.len() >= 2 && (leaves >= 2));
    Ok(())
}

fn c07_run(ctx: &ShardCtx) -> ShardResult {
    let cases = ctx.tier.pick(450, 10_000);
    run_proptest(ctx, par_case(), cases, 7, |c, stats| c07_one(c, stats, "C07", |_| true))
}

fn c07_replay(v: &Value) -> Verdict {
    let c: ParCase = parse_case("par", v)?;
    let mut s = Stats::default();
    c07_one(&c, &mut s, "C07", |_| true)
}

/// Joins without any positive member: `(!&s1, (&s0).maybe())` walks every index below 2^24 that is
/// not in s1.  Items carry no index, so the oracle is the item count, the number of present optional
/// components and their identities, plus the effects of the mutable variant.
fn c07_unbounded_one(case: &ParCase, stats: &mut Stats) -> Verdict {
    use rayon::iter::ParallelIterator;
    const ALL: u64 = 1 << 24;
    let mut jw = build(&case.membership);
    let m0 = jw.model.masks[0].clone();
    let m1 = jw.model.masks[1].clone();
    let want_count = ALL - m1.len() as u64;
    let mut want_some: Vec<joinworld::Ident> = m0.iter().filter(|i| !m1.contains(i)).map(|i| jw.model.vals[0][i]).collect();
    want_some.sort();
    // default-sized worker stacks: splitting 2^24 indices recurses deeper than the small stacks of the
    // many-thread pools used elsewhere allow
    const BIG_POOLS: [usize; 5] = [1, 2, 3, 8, 32];
    let n = BIG_POOLS[case.threads.unwrap_or(case.shape) as usize % BIG_POOLS.len()];
    let p = std::sync::Arc::new(rayon::ThreadPoolBuilder::new().num_threads(n).build().expect("rayon pool"));
    let mutable = case.variant % 2 == 1;
    let before0 = jw.contents(0);
    let (seq_count, par_count, mut somes) = {
        let jwr = &mut jw;
        p.install(move || {
            let mut f = jwr.fetch();
            let seq_count = (!&f.s1, (&f.s0).maybe()).join().count() as u64;
            let (par_count, somes) = if mutable {
                (!&f.s1, (&mut f.s0).maybe())
                    .par_join()
                    .fold(|| (0u64, Vec::new()), |mut acc, (_, o)| {
                        acc.0 += 1;
                        if let Some(c) = o {
                            acc.1.push(c.ident());
                            c.set_payload(u32::MAX);
                        }
                        acc
                    })
                    .reduce(|| (0u64, Vec::new()), |mut a, mut b| {
                        a.0 += b.0;
                        a.1.append(&mut b.1);
                        a
                    })
            } else {
                (!&f.s1, (&f.s0).maybe())
                    .par_join()
                    .fold(|| (0u64, Vec::new()), |mut acc, (_, o)| {
                        acc.0 += 1;
                        if let Some(c) = o {
                            acc.1.push(c.ident());
                        }
                        acc
                    })
                    .reduce(|| (0u64, Vec::new()), |mut a, mut b| {
                        a.0 += b.0;
                        a.1.append(&mut b.1);
                        a
                    })
            };
            (seq_count, par_count, somes)
        })
    };
    somes.sort();
    let ctx = format!("(!&s1, ({}s0).maybe()).par_join() on a pool of {} threads", if mutable { "&mut " } else { "&" }, n);
    ensure!("C06", "join-item-count", seq_count == want_count, "sequential (!&s1, (&s0).maybe()).join() yields {} items, expected 2^24 - {} = {}", seq_count, m1.len(), want_count);
    ensure!("C07", if par_count < want_count { "par-missing-items" } else { "par-duplicate-items" }, par_count == want_count,
        "{}: delivered {} items, the sequential join {}", ctx, par_count, want_count);
    ensure!("C07", "par-different-items", somes == want_some, "{}: delivered {} present optional components, expected the {} of s0 outside s1", ctx, somes.len(), want_some.len());
    let mut want0 = before0;
    if mutable {
        for (i, v) in want0.iter_mut() {
            if !m1.contains(i) {
                v.1 = u32::MAX;
            }
        }
    }
    ensure!("C07", "par-effects", jw.contents(0) == want0, "{}: storage s0 after the join differs from the expectation (writes exactly on s0 minus s1)", ctx);
    stats.label(&format!("pool.{}", n));
    stats.label(if mutable { "mutable_optional_member" } else { "shared_optional_member" });
    stats.case(case, !m1.is_empty() && want_some.len() >= 2);
    Ok(())
}

fn c07_unbounded_run(ctx: &ShardCtx) -> ShardResult {
    let cases = ctx.tier.pick(12, 150);
    run_proptest(ctx, par_case(), cases, 71, |c, stats| c07_unbounded_one(c, stats))
}

fn c07_unbounded_replay(v: &Value) -> Verdict {
    let c: ParCase = parse_case("par", v)?;
    let mut s = Stats::default();
    c07_unbounded_one(&c, &mut s)
}

pub fn c07() -> Property {
    Property {
        id: "C07",
        subs: vec![
        SubCheck {
            name: "parjoins",
            shards: |t: Tier| t.pick(8, 16),
            run: c07_run,
            replay: c07_replay,
            rule: "15 ParJoin-capable shapes (shared / mutable storages of the six DistinctStorage kinds, entities, bit sets, negation, maybe(), restricted storages, arity up to 9) x generated membership (as C06: dense, sparse, straddling the 64 / 4096 / 262144 / 524288 boundaries) executed (a) on real rayon pools of {1,2,3,4,7,16,64,256} threads through map+collect, for_each and fold+reduce, (b) through the split-tree hook: split unconditionally to a generated depth (0..14, i.e. up to 16384 leaves) and then follow a generated Vec<bool> (owned schedule of the index-space partition; nearly-full masks of up to 270000 indices make deep trees real); oracle: multiset of delivered (index, components) items == sequential join on an identical world, every mutable component of the intersection written exactly once and nothing else changed; non-trivial = intersection of >= 2 indices over >= 2 layer-1 words and >= 2 threads / leaves",
            exe_env: None,
        },
        SubCheck {
            name: "unbounded",
            shards: |t: Tier| t.pick(4, 8),
            run: c07_unbounded_run,
            replay: c07_unbounded_replay,
            rule: "joins without a positive member, (!&s1, (&s0).maybe()) and (!&s1, (&mut s0).maybe()), which walk all 2^24 indices outside s1, over generated membership on real pools: item count == sequential count == 2^24 - |s1|, identities of the present optional components == s0 minus s1, writes visible exactly there; non-trivial = s1 non-empty and >= 2 present components",
            exe_env: None,
        }],
        crash_is_violation: true,
        assumptions: &["rayon's scheduling is sampled, not owned; the split-tree hook owns the partition of the index space instead", "hibitset BitProducer::split is exercised but trusted to be what rayon uses"],
    }
}

// ---------------------------------------------------------------------------
// C13: restricted storages (join part; sequences are in stoseq)

fn c13_join_run(ctx: &ShardCtx) -> ShardResult {
    let cases = ctx.tier.pick(250, 6000);
    run_proptest(ctx, join_case(), cases, 13, |c, stats| c06_one(c, stats, "C13", |s| s.name.contains("restrict")))
}

fn c13_par_run(ctx: &ShardCtx) -> ShardResult {
    let cases = ctx.tier.pick(200, 5000);
    run_proptest(ctx, par_case(), cases, 14, |c, stats| c07_one(c, stats, "C13", |s| s.name.contains("restrict")))
}

fn c13_join_replay(v: &Value) -> Verdict {
    let c: JoinCase = parse_case("join", v)?;
    let mut s = Stats::default();
    c06_one(&c, &mut s, "C13", |s| s.name.contains("restrict"))
}

fn c13_par_replay(v: &Value) -> Verdict {
    let c: ParCase = parse_case("par", v)?;
    let mut s = Stats::default();
    c07_one(&c, &mut s, "C13", |s| s.name.contains("restrict"))
}

pub fn c13_subs() -> Vec<SubCheck> {
    vec![
        SubCheck {
            name: "restricted-joins",
            shards: |t: Tier| t.pick(4, 8),
            run: c13_join_run,
            replay: c13_join_replay,
            rule: "the restricted-storage shapes of the C06 catalogue (&restrict(), &mut restrict_mut() in join / lend_join, with other members) over generated membership: visited indices == storage mask intersection, item.get() == model value, writes through get_mut() on a generated subset visible exactly there",
            exe_env: None,
        },
        SubCheck {
            name: "restricted-parjoins",
            shards: |t: Tier| t.pick(4, 8),
            run: c13_par_run,
            replay: c13_par_replay,
            rule: "the restricted-storage shapes of the C07 catalogue in par_join (real pools and owned split trees)",
            exe_env: None,
        },
    ]
}

// ---------------------------------------------------------------------------
// C16: change sets (with instrumented, non-commutative amounts)

pub struct Amt {
    pub parts: Vec<u32>,
    guard: zoo::Val,
}

impl Amt {
    fn new(x: u32) -> Amt {
        Amt { parts: vec![x], guard: zoo::Val::new(x) }
    }
    fn check(&self) -> Result<(), String> {
        self.guard.check().map(|_| ())
    }
}

impl std::ops::AddAssign for Amt {
    fn add_assign(&mut self, rhs: Amt) {
        self.parts.extend(rhs.parts.iter().cloned());
        // rhs (and its guard) is consumed here
    }
}

#[derive(Clone, Debug, Serialize, Deserialize, Hash, PartialEq, Eq)]
pub struct CsCase {
    pub pool: crate::stoseq::Pool,
    pub pairs: Vec<(u16, u32)>,
    /// split points: collect the first a, extend with the next b, add the rest one by one
    pub split: (u8, u8),
    /// how the set is consumed
    pub mode: u8,
    pub storage: joinworld::IndexSet,
    pub take: Option<u8>,
    /// C19: panic in the k-th destructor of clear()/drop
    pub bomb: Option<u8>,
}

fn cs_case(with_bomb: bool) -> impl Strategy<Value = CsCase> {
    (
        crate::stoseq::pool_strategy(),
        proptest::collection::vec((any::<u16>(), 1u32..100_000), 0..90),
        (any::<u8>(), any::<u8>()),
        0u8..10,
        joinworld::index_set(),
        proptest::option::of(0u8..4),
        if with_bomb { any::<u8>().prop_map(Some).boxed() } else { Just(None).boxed() },
    )
        .prop_map(|(pool, pairs, split, mode, storage, take, bomb)| CsCase { pool, pairs, split, mode, storage, take, bomb })
}

struct CsFacts {
    nontrivial: bool,
    fired: bool,
}

fn cs_one(case: &CsCase, prop: &'static str) -> Result<CsFacts, Violation> {
    use crate::zoo::CDense;
    zoo::ledger_reset();
    let (mut world, cands) = {
        let mut w = World::new();
        w.register::<CDense>();
        let cands: Vec<Entity> = match &case.pool {
            crate::stoseq::Pool::Dense(n) => w.create_iter().take((*n as usize).clamp(1, 60)).collect(),
            crate::stoseq::Pool::Sparse { total, picks } => {
                let total = (*total as usize).clamp(2, 6000);
                let all: Vec<Entity> = w.create_iter().take(total).collect();
                let mut set = BTreeSet::new();
                for p in picks.iter().take(24) {
                    set.insert((*p as usize * total) >> 16);
                }
                set.insert(total - 1);
                set.into_iter().map(|i| all[i]).collect()
            }
            crate::stoseq::Pool::Layered { picks } => {
                let all: Vec<Entity> = w.create_iter().take(524_292).collect();
                let mut set = BTreeSet::new();
                for p in picks.iter().take(16) {
                    set.insert(crate::stoseq::ATOMS[*p as usize % crate::stoseq::ATOMS.len()]);
                }
                set.insert(524_288);
                set.into_iter().map(|i| all[i as usize]).collect()
            }
        };
        (w, cands)
    };
    let n = cands.len();
    let pairs: Vec<(Entity, u32)> = case.pairs.iter().map(|(s, a)| (cands[(*s as usize * n) >> 16], *a)).collect();
    let mut model: BTreeMap<u32, Vec<u32>> = BTreeMap::new();
    for (e, a) in &pairs {
        model.entry(e.id()).or_default().push(*a);
    }
    let a = (case.split.0 as usize * (pairs.len() + 1)) >> 8;
    let b = a + ((case.split.1 as usize * (pairs.len() - a + 1)) >> 8);
    // the source iterator's shape must not matter: exact-size, or one whose size_hint is (0, Some(n))
    let opaque = case.split.0 % 2 == 1;
    let mut cs: ChangeSet<Amt> = if case.mode >= 5 {
        // a set that was used and cleared before: reverse arrival order of junk amounts, clear(), refill
        let mut cs = ChangeSet::new();
        for (e, x) in pairs.iter().rev().take(7) {
            cs.add(*e, Amt::new(x.wrapping_add(1_000_000)));
        }
        cs.clear();
        ensure!(prop, "changeset-clear", (&cs).join().count() == 0, "a cleared change set still yields items");
        cs.extend(pairs[..a].iter().map(|(e, x)| (*e, Amt::new(*x))));
        cs
    } else if opaque {
        pairs[..a].iter().map(|(e, x)| (*e, Amt::new(*x))).filter(|_| true).collect()
    } else {
        pairs[..a].iter().map(|(e, x)| (*e, Amt::new(*x))).collect()
    };
    if case.split.1 % 2 == 1 {
        cs.extend(pairs[a..b].iter().map(|(e, x)| (*e, Amt::new(*x))).filter(|_| true));
    } else {
        cs.extend(pairs[a..b].iter().map(|(e, x)| (*e, Amt::new(*x))));
    }
    for (e, x) in &pairs[b..] {
        cs.add(*e, Amt::new(*x));
    }
    // storage content to join with
    let span = cands.iter().map(|e| e.id()).max().unwrap_or(0) + 1;
    let in_storage: BTreeSet<u32> = {
        let s = case.storage.expand(span);
        cands.iter().map(|e| e.id()).filter(|i| s.contains(i) || i % 3 == 0).collect()
    };
    let mut svals: BTreeMap<u32, joinworld::Ident> = BTreeMap::new();
    {
        let mut st = world.write_storage::<CDense>();
        for e in &cands {
            if in_storage.contains(&e.id()) {
                let c = CDense::make(e.id() % 1000);
                svals.insert(e.id(), c.ident());
                st.insert(*e, c).unwrap();
            }
        }
    }
    let check_amt = |a: &Amt, i: u32, ctx: &str| -> Verdict {
        a.check().map_err(|m| vio("C08", "exposed-dead-value", format!("change set {}: {}", ctx, m)))?;
        ensure!(prop, "changeset-sum", Some(&a.parts) == model.get(&i), "change set {}: index {} holds {:?}, expected the amounts in arrival order {:?}", ctx, i, a.parts, model.get(&i));
        Ok(())
    };
    let keys: Vec<u32> = model.keys().cloned().collect();
    let mut all_bits = BitSet::new();
    for e in &cands {
        all_bits.add(e.id());
    }
    let mut fired = false;
    {
        let st = world.read_storage::<CDense>();
        // shared views (always)
        let got: Vec<u32> = (&all_bits, &cs).join().map(|(i, _)| i).collect();
        ensure!(prop, "changeset-members", got == keys, "(&bitset,&changeset).join() visits {:?}, expected exactly the mentioned entities {:?}", got, keys);
        for (i, a) in (&all_bits, &cs).join() {
            check_amt(a, i, "(&cs).join()")?;
        }
        let n_alone = (&cs).join().count();
        ensure!(prop, "changeset-count", n_alone == keys.len(), "(&changeset).join() yields {} items for {} entities", n_alone, keys.len());
        let mut j = (&all_bits, &cs).lend_join();
        let mut lend_seen = vec![];
        while let Some((i, a)) = j.next() {
            check_amt(a, i, "lend_join")?;
            lend_seen.push(i);
        }
        ensure!(prop, "changeset-members", lend_seen == keys, "lending join over the change set visits {:?}, expected {:?}", lend_seen, keys);
        // joined with a storage: each amount with that entity's own component, once
        let with_st: Vec<(u32, joinworld::Ident, Vec<u32>)> = (&all_bits, &st, &cs).join().map(|(i, c, a)| (i, c.ident(), a.parts.clone())).collect();
        let want: Vec<(u32, joinworld::Ident, Vec<u32>)> = keys.iter().filter(|i| in_storage.contains(i)).map(|i| (*i, svals[i], model[i].clone())).collect();
        ensure!(prop, "changeset-storage-join", with_st == want, "(&bitset,&storage,&changeset).join() yields {:?}, expected {:?}", with_st, want);
    }
    match case.mode % 5 {
        0 => {
            // mutable join: append a marker to a prefix
            let mut k = 0;
            for (i, a) in (&all_bits, &mut cs).join() {
                check_amt(a, i, "(&mut cs).join()")?;
                k += 1;
            }
            ensure!(prop, "changeset-count", k == keys.len(), "(&mut changeset).join() yields {} items for {} entities", k, keys.len());
            let mut j = (&mut cs, &all_bits).lend_join();
            let mut k = 0;
            while let Some((a, i)) = j.next() {
                check_amt(a, i, "(&mut cs).lend_join()")?;
                k += 1;
            }
            ensure!(prop, "changeset-count", k == keys.len(), "(&mut changeset).lend_join() yields {} items for {} entities", k, keys.len());
            drop(cs);
        }
        1 => {
            // by value, fully or partially consumed
            let limit = case.take.map(|t| t as usize).unwrap_or(usize::MAX);
            let mut got = vec![];
            {
                let mut it = (cs, &all_bits).join();
                while got.len() < limit {
                    match it.next() {
                        Some((a, i)) => {
                            a.check().map_err(|m| vio("C08", "exposed-dead-value", format!("by-value change set item: {}", m)))?;
                            got.push((i, a.parts.clone()));
                            zoo::caller_drop(a);
                        }
                        None => break,
                    }
                }
            }
            let want: Vec<(u32, Vec<u32>)> = model.iter().take(limit).map(|(k, v)| (*k, v.clone())).collect();
            ensure!(prop, "changeset-consume", got == want, "consuming the change set yields {:?}, expected each accumulated amount once: {:?}", got, want);
        }
        4 => {
            // by value through the lending join, fully or partially consumed
            let limit = case.take.map(|t| t as usize).unwrap_or(usize::MAX);
            let mut got = vec![];
            {
                let mut j = (cs, &all_bits).lend_join();
                while got.len() < limit {
                    match j.next() {
                        Some((a, i)) => {
                            a.check().map_err(|m| vio("C08", "exposed-dead-value", format!("by-value change set item (lend_join): {}", m)))?;
                            got.push((i, a.parts.clone()));
                            zoo::caller_drop(a);
                        }
                        None => break,
                    }
                }
            }
            let want: Vec<(u32, Vec<u32>)> = model.iter().take(limit).map(|(k, v)| (*k, v.clone())).collect();
            ensure!(prop, "changeset-consume", got == want, "consuming the change set through lend_join yields {:?}, expected each accumulated amount once: {:?}", got, want);
        }
        2 => {
            // by value joined with the storage
            let st = world.read_storage::<CDense>();
            let got: Vec<(u32, Vec<u32>, joinworld::Ident)> = {
                let mut out = vec![];
                for (a, c, i) in (cs, &st, &all_bits).join() {
                    out.push((i, a.parts.clone(), c.ident()));
                    zoo::caller_drop(a);
                }
                out
            };
            let want: Vec<(u32, Vec<u32>, joinworld::Ident)> = keys.iter().filter(|i| in_storage.contains(i)).map(|i| (*i, model[i].clone(), svals[i])).collect();
            ensure!(prop, "changeset-consume-storage", got == want, "consuming join with a storage yields {:?}, expected {:?}", got, want);
        }
        _ => {
            // clear (optionally with a panicking destructor), then reuse
            if let Some(b) = case.bomb {
                let live: Vec<u64> = with_ledger(|l| l.live_serials());
                // guards of the amounts held by the set are exactly the live placeholders-free serials minus storage values
                let sserials: BTreeSet<u64> = svals.values().map(|v| v.0).collect();
                let targets: Vec<u64> = live.into_iter().filter(|s| !sserials.contains(s)).collect();
                if !targets.is_empty() {
                    let t = targets[(b as usize * targets.len()) >> 8];
                    with_ledger(|l| {
                        l.bomb_fired = false;
                        l.bomb_serial = Some(t);
                    });
                }
                let r = std::panic::catch_unwind(std::panic::AssertUnwindSafe(|| cs.clear()));
                fired = with_ledger(|l| {
                    l.bomb_serial = None;
                    l.bomb_fired
                });
                if r.is_err() {
                    let msg = crate::engine::take_last_panic().unwrap_or_default();
                    ensure!("C19", "other-panic", msg.contains("verif-bomb"), "ChangeSet::clear panicked with {:?}", msg);
                }
                let errs = with_ledger(|l| l.take_errors());
                if let Some(e) = errs.first() {
                    return Err(vio("C19", "double-drop", format!("ChangeSet::clear with a panicking destructor: {}", e)));
                }
                for a in (&cs).join() {
                    a.check().map_err(|m| vio("C19", "stale-read-after-panic", format!("change set after the caught panic exposes: {}", m)))?;
                }
            } else {
                cs.clear();
                ensure!(prop, "changeset-clear", (&cs).join().count() == 0, "change set not empty after clear()");
            }
            // the set stays usable
            let e0 = cands[0];
            cs.add(e0, Amt::new(5));
            cs.add(e0, Amt::new(6));
            let got: Vec<Vec<u32>> = (&cs).join().map(|a| a.parts.clone()).collect();
            if case.bomb.is_none() {
                ensure!(prop, "changeset-reuse", got == vec![vec![5, 6]], "after clear() and two adds the set holds {:?}", got);
            }
            drop(cs);
        }
    }
    drop(world);
    let (errs, live) = with_ledger(|l| (l.take_errors(), l.live_serials()));
    if let Some(e) = errs.first() {
        return Err(vio(if case.bomb.is_some() { "C19" } else { "C08" }, "ledger", format!("change set: {}", e)));
    }
    if !fired {
        ensure!("C08", "leak", live.is_empty(), "change set: values {:?} were neither handed back nor destroyed", live);
    }
    let max_mentions = model.values().map(|v| v.len()).max().unwrap_or(0);
    let min_mentions = model.values().map(|v| v.len()).min().unwrap_or(0);
    Ok(CsFacts { nontrivial: max_mentions >= 3 && min_mentions == 1 && model.len() >= 2, fired })
}

fn c16_run(ctx: &ShardCtx) -> ShardResult {
    let cases = ctx.tier.pick(8000, 250_000);
    run_proptest(ctx, cs_case(false), cases, 16, |c, stats| {
        let f = cs_one(c, "C16")?;
        stats.label(&format!("mode.{}", ["mutable-joins", "consume", "consume-with-storage", "clear-reuse", "consume-lending"][c.mode as usize % 5]));
        stats.case(c, f.nontrivial);
        Ok(())
    })
}

fn c16_replay(v: &Value) -> Verdict {
    let c: CsCase = parse_case("changeset", v)?;
    cs_one(&c, "C16").map(|_| ())
}

const CS_RULE: &str = "generated sequences of (entity, amount) pairs over dense / sparse / layer-straddling entity pools, split at generated points into collect / extend / add; amounts are a non-commutative monoid (Vec<u32>, += is concatenation) so arrival order is observable, and each carries an instrumented guard value; oracle: BTreeMap<index, concatenation>: (&cs).join(), (&mut cs).join(), cs.join() (fully and partially consumed), lending forms and joins with a DenseVecStorage yield exactly the model pairs restricted to the intersection, each once, paired with that entity's own component; the ledger shows every amount handed back or destroyed exactly once; non-trivial = an entity mentioned >= 3 times, one mentioned once, >= 2 distinct indices";

pub fn c16() -> Property {
    Property {
        id: "C16",
        subs: vec![SubCheck { name: "changesets", shards: |t: Tier| t.pick(8, 16), run: c16_run, replay: c16_replay, rule: CS_RULE, exe_env: None }],
        crash_is_violation: true,
        assumptions: &["BTreeMap model of per-entity accumulation"],
    }
}

fn c08_cs_run(ctx: &ShardCtx) -> ShardResult {
    let cases = ctx.tier.pick(2000, 60_000);
    run_proptest(ctx, cs_case(false), cases, 17, |c, stats| {
        let f = cs_one(c, "C16")?;
        stats.case(c, f.nontrivial && (c.mode % 5 == 1 || c.mode % 5 == 3 || c.mode % 5 == 4));
        Ok(())
    })
}

pub fn c08_changeset_sub() -> SubCheck {
    SubCheck {
        name: "changesets",
        shards: |t: Tier| t.pick(4, 8),
        run: c08_cs_run,
        replay: c16_replay,
        rule: "change sets built by collect / extend / add with instrumented amounts, consumed by value (fully / partially), cleared or dropped: every amount handed back or destroyed exactly once, none exposed after destruction; non-trivial = accumulated set that is partially consumed or cleared",
        exe_env: None,
    }
}

fn c19_cs_run(ctx: &ShardCtx) -> ShardResult {
    let cases = ctx.tier.pick(1000, 30_000);
    run_proptest(ctx, cs_case(true).prop_map(|mut c| { c.mode = 3; c }), cases, 18, |c, stats| {
        let f = cs_one(c, "C19")?;
        if f.fired {
            stats.label("panic_caught");
        }
        stats.case(c, f.fired && c.pairs.len() >= 2);
        Ok(())
    })
}

fn c19_cs_replay(v: &Value) -> Verdict {
    let c: CsCase = parse_case("changeset", v)?;
    cs_one(&c, "C19").map(|_| ())
}

pub fn c19_changeset_sub() -> SubCheck {
    SubCheck {
        name: "changeset-clear",
        shards: |t: Tier| t.pick(2, 8),
        run: c19_cs_run,
        replay: c19_cs_replay,
        rule: "ChangeSet::clear() with the destructor of a generated accumulated amount panicking: after catch_unwind no value destroyed twice, nothing destroyed is readable through the set, the set accepts further adds; non-trivial = panic caught with >= 2 pairs",
        exe_env: None,
    }
}
