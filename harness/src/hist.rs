//! World-history interpreter: executes a generated history on a real `World`
//! and on a reference model side by side. The oracles are tagged with the
//! property they belong to (C01, C02, C03, C05, C08, C09, C17).

use std::{
    collections::{BTreeMap, BTreeSet, HashSet},
    sync::{Arc, Mutex},
};

use proptest::prelude::*;
use serde::{Deserialize, Serialize};
use specs::{
    prelude::*,
    storage::AccessMut,
    world::{EntitiesRes, LazyBuilder},
};

use crate::{
    engine::{Verdict, Violation},
    ensure, with_kind,
    zoo::{self, caller_drop, with_ledger, Kind, St, ZooComp, ALL_KINDS},
};

// ---------------------------------------------------------------------------
// case description

#[derive(Clone, Copy, Debug, Serialize, Deserialize, Hash, PartialEq, Eq)]
pub enum Sel {
    Any(u16),
    Live(u16),
    Dead(u16),
}

#[derive(Clone, Debug, Serialize, Deserialize, Hash, PartialEq, Eq)]
pub enum EntryAct {
    OrInsert(u32),
    Replace(u32),
    Remove,
    GetMut(u32),
}

#[derive(Clone, Debug, Serialize, Deserialize, Hash, PartialEq, Eq)]
pub enum ExecStep {
    Observe(Vec<Sel>),
    CreateAtomic,
    CreateNow,
    /// create an entity with one component inside the closure
    CreateNowWith(u8, u32),
    /// build a second, unrelated world inside the closure, queue a lazy action on it and maintain it
    OtherWorld,
    /// use a lazy builder (deferred entity + queued component) from inside the running closure
    LazyCreateWith(u8, u32),
    DeleteNow(Sel),
    DeleteAtomic(Sel),
    InsertNow(u8, Sel, u32),
    Nested(Vec<ExecStep>),
    LazyInsert(u8, Sel, u32),
    LazyRemove(u8, Sel),
    /// a chain of n closures, each queued by the one before it while it runs (one maintain must run them all)
    Chain(u8),
    /// the closure calls World::maintain itself (always its last step): deferred creations / deletions take
    /// effect there and the rest of the queue runs inside that call, in order, exactly once
    MaintainInside,
}

#[derive(Clone, Debug, Serialize, Deserialize, Hash, PartialEq, Eq)]
pub enum Op {
    CreateNow { comps: Vec<(u8, u32)>, built: bool },
    CreateIterNow(u8),
    CreateAtomic,
    CreateIterAtomic(u8),
    BuildEntity { comps: Vec<(u8, u32)>, built: bool },
    LazyCreate { comps: Vec<(u8, u32)> },
    DeleteNow(Sel),
    DeleteBatch(Vec<Sel>),
    DeleteAtomic(Sel),
    /// the same entity deleted through both paths: Entities::delete, then delete_entity
    DeleteTwice(Sel),
    DeleteAll,
    Maintain,
    Insert(u8, Sel, u32),
    Remove(u8, Sel),
    GetMut(u8, Sel, u32),
    Entry(u8, Sel, EntryAct),
    GetOrDefault(u8, Sel, u32),
    /// lookup by entity through a lending join (plain, with `maybe()`)
    LendGet(u8, Sel, u32),
    /// lookup of another entity through a restricted storage item
    RestrictOther(u8, Sel, u32),
    LazyInsert(u8, Sel, u32),
    LazyInsertAll(u8, Vec<(Sel, u32)>),
    LazyRemove(u8, Sel),
    LazyExec(Vec<ExecStep>),
    /// deserialise data that mentions `n` unknown markers (creates `n` entities through the shared entities resource)
    Deserialize(u8),
    /// switch event emission of a tracked storage off / on (storage-event-control builds only)
    SetEmission(u8, bool),
    /// MarkerAllocator::retrieve_entity for a marker id seen before (its entity may be dead by now)
    Retrieve(u8),
}

#[derive(Clone, Debug, Serialize, Deserialize, Hash, PartialEq, Eq)]
pub struct History {
    /// storage kinds of this world (distinct) and how each is made known
    pub storages: Vec<(Kind, u8)>,
    pub ops: Vec<Op>,
}

// ---------------------------------------------------------------------------
// model

#[derive(Clone, Copy, Debug, PartialEq, Eq)]
enum HState {
    Live { merged: bool, pending: bool },
    Dead,
}

#[derive(Clone, Copy, Debug)]
struct Handle {
    e: Entity,
    state: HState,
}

type Ident = (u64, u32);

#[derive(Clone, Debug)]
enum RStep {
    Observe(Vec<Entity>),
    CreateAtomic,
    CreateNow,
    CreateNowWith(usize, u32),
    OtherWorld,
    LazyCreateWith(usize, u32),
    DeleteNow(Entity),
    DeleteAtomic(Entity),
    InsertNow(usize, Entity, u32),
    Nested(RExec),
    LazyInsert(usize, Entity, u32),
    LazyRemove(usize, Entity),
    MaintainInside,
}

#[derive(Clone, Debug)]
struct RExec {
    id: u32,
    steps: Vec<RStep>,
}

#[derive(Clone, Debug)]
enum QItem {
    Insert { slot: usize, e: Entity, ident: Ident },
    /// value made inside a closure: ident only known from the log
    InsertLogged { slot: usize, e: Entity, ident: Ident },
    Remove { slot: usize, e: Entity },
    Exec(RExec),
}

#[derive(Clone, Debug, PartialEq)]
enum LogEntry {
    Ran(u32),
    /// per probed handle (alive, contains per storage); then the raw mask of every storage
    Observed(Vec<(bool, Vec<bool>)>, Vec<Vec<u32>>),
    Created(Entity),
    CreatedWith(Entity, Ident),
    OtherWorldRan(bool, bool),
    DelResult(bool),
    Inserted { ok: bool, old: Option<Ident>, new: Ident },
    QueuedValue(Ident),
}

type Log = Arc<Mutex<Vec<LogEntry>>>;

/// What happened in a history (for the non-triviality rules and labels).
#[derive(Default, Debug, Clone)]
pub struct Facts {
    pub creations: u32,
    pub index_reuse: u32,
    pub reuse_before_maintain: u32,
    pub stale_delete: u32,
    pub failing_batch: u32,
    pub batch_with_repeat: u32,
    pub delete_all: u32,
    pub dropped_builder: u32,
    pub maintains: u32,
    pub deaths: u32,
    pub death_then_creation: u32,
    pub stale_access_occupied_with_comp: u32,
    pub stale_access: u32,
    pub multi_storage_death: u32,
    pub multi_storage_death_then_reuse: u32,
    pub lazy_actions_run: u32,
    pub lazy_nested: u32,
    pub lazy_chain_over_64: u32,
    pub maintain_inside_closure: u32,
    pub lazy_dead_target: u32,
    pub lazy_reused_target: u32,
    pub max_queue_in_one_maintain: u32,
    pub skipped_ops: u32,
    pub overwrite_or_remove: u32,
    pub live_comps_at_teardown: u32,
    pub restrict_other_live: u32,
    pub restrict_other_stale: u32,
}

pub struct HistTag;

pub struct Interp {
    next_marker: u64,
    /// marker id -> entity that got it (creation during deserialisation)
    marker_owner: BTreeMap<u64, Entity>,
    world: Option<World>,
    kinds: Arc<Vec<Kind>>,
    handles: Vec<Handle>,
    seen: HashSet<Entity>,
    occupant: BTreeMap<u32, usize>,
    used: BTreeSet<u32>,
    peak: usize,
    comps: Vec<BTreeMap<u32, Ident>>,
    queue: Vec<QItem>,
    log: Log,
    next_exec_id: u32,
    pub facts: Facts,
    pub transcript: Option<Vec<String>>,
    /// indices whose multi-storage death awaits a reuse (C05 rule)
    multi_dead: BTreeSet<u32>,
    dead_since_maintain: BTreeSet<u32>,
    any_death: bool,
    /// events are read through channel_mut() instead of channel()
    drain_mut: bool,
    readers: Vec<Option<ReaderId<specs::storage::ComponentEvent>>>,
    emission: Vec<bool>,
    /// serials of values the model says were destroyed by the library in the current step
    expect_destroyed: Vec<(u64, u32, Kind)>,
    /// first violation of another property's model-independent oracle (reported if nothing else is)
    deferred_other: Option<Violation>,
}

fn v(prop: &str, sig: &str, msg: String) -> Violation {
    Violation::new(prop, sig, msg)
}

// generic helpers over the component type ---------------------------------

fn register_path<C: ZooComp>(world: &mut World, path: u8)
where
    C::Storage: Default,
{
    struct SysW<C>(std::marker::PhantomData<C>);
    impl<'a, C: ZooComp> System<'a> for SysW<C> {
        type SystemData = WriteStorage<'a, C>;
        fn run(&mut self, _: Self::SystemData) {}
    }
    struct SysR<C>(std::marker::PhantomData<C>);
    impl<'a, C: ZooComp> System<'a> for SysR<C> {
        type SystemData = (Entities<'a>, ReadStorage<'a, C>);
        fn run(&mut self, _: Self::SystemData) {}
    }
    match path % 9 {
        0 => world.register::<C>(),
        1 => world.register_with_storage::<_, C>(Default::default),
        2 => world.setup::<ReadStorage<C>>(),
        3 => world.setup::<WriteStorage<C>>(),
        4 => {
            let mut d = DispatcherBuilder::new()
                .with_pool(setup_pool())
                .with(SysW::<C>(std::marker::PhantomData), "w", &[])
                .build();
            d.setup(world);
        }
        5 => {
            let mut d = DispatcherBuilder::new()
                .with_pool(setup_pool())
                .with(SysR::<C>(std::marker::PhantomData), "r", &[])
                .build();
            d.setup(world);
        }
        6 => world.exec(|_: ReadStorage<C>| ()),
        7 => {
            // the storage resource is put into the world directly and registered afterwards
            world.insert(specs::storage::MaskedStorage::<C>::new(Default::default()));
            world.register::<C>();
        }
        _ => {
            world.register::<C>();
            world.register::<C>();
        }
    }
}

thread_local! {
    static SETUP_POOL: Arc<specs::rayon::ThreadPool> = Arc::new(specs::rayon::ThreadPoolBuilder::new().num_threads(1).build().expect("pool"));
}

/// One shared single-thread pool: a dispatcher built without a pool spawns one thread per core.
fn setup_pool() -> Arc<specs::rayon::ThreadPool> {
    SETUP_POOL.with(|p| p.clone())
}

fn builder_with<'a, C: ZooComp>(b: EntityBuilder<'a>, payload: u32) -> (EntityBuilder<'a>, Ident) {
    let c = C::make(payload);
    let id = c.ident();
    // with / maybe_with(Some) are the same insertion; maybe_with(None) adds nothing
    match payload % 3 {
        0 => (b.with(c), id),
        1 => (b.maybe_with(Some(c)), id),
        _ => (b.maybe_with(None::<C>).with(c), id),
    }
}

fn lazy_builder_with<'a, C: ZooComp>(b: LazyBuilder<'a>, payload: u32) -> (LazyBuilder<'a>, Ident) {
    let c = C::make(payload);
    let id = c.ident();
    match payload % 3 {
        0 => (b.with(c), id),
        1 => (b.maybe_with(Some(c)), id),
        _ => (b.maybe_with(None::<C>).with(c), id),
    }
}

fn res_builder_with<'a, C: ZooComp>(
    world: &World,
    b: specs::world::EntityResBuilder<'a>,
    payload: u32,
) -> (specs::world::EntityResBuilder<'a>, Ident) {
    let c = C::make(payload);
    let id = c.ident();
    let mut st = world.write_storage::<C>();
    (b.with(c, &mut st), id)
}

fn st_join_items<C: ZooComp>(world: &World) -> Vec<(u32, u64, u32)> {
    let ents = world.entities();
    let st = world.read_storage::<C>();
    (&ents, &st).join().map(|(e, c)| (e.id(), c.ident().0, c.ident().1)).collect()
}

fn st_events<C: crate::stoseq::Caps>(world: &World, r: &mut ReaderId<specs::storage::ComponentEvent>, via_mut: bool) -> Vec<specs::storage::ComponentEvent> {
    // the shared or the exclusive way to reach the channel
    if via_mut {
        let mut st = world.write_storage::<C>();
        C::read_events_mut(&mut st, r)
    } else {
        let st = world.read_storage::<C>();
        C::read_events(&st, r)
    }
}

fn st_set_emission<C: crate::stoseq::Caps>(world: &World, on: bool) -> bool {
    let mut st = world.write_storage::<C>();
    C::set_emission(&mut st, on)
}

fn st_register_reader<C: crate::stoseq::Caps>(world: &World) -> Option<ReaderId<specs::storage::ComponentEvent>> {
    let mut st = world.write_storage::<C>();
    C::register_reader(&mut st)
}

fn st_mask<C: ZooComp>(world: &World) -> Vec<u32> {
    use specs::hibitset::BitSetLike;
    world.read_storage::<C>().mask().iter().collect()
}

fn st_count<C: ZooComp>(world: &World) -> (usize, bool) {
    let st = world.read_storage::<C>();
    (st.count(), st.is_empty())
}

/// The dense array of DenseVecStorage-backed kinds (as_slice), if the kind has one.
fn st_dense_view<C: crate::stoseq::Caps>(world: &World) -> Option<Vec<Result<Ident, String>>> {
    let st = world.read_storage::<C>();
    match C::slice_view(&st, &std::collections::BTreeSet::new(), &[]) {
        Some(crate::stoseq::SliceView::Dense(v)) => Some(v),
        _ => None,
    }
}

/// `(get ident, contains, intact)`
fn st_get<C: ZooComp>(world: &World, e: Entity) -> (Option<Ident>, bool, Result<(), String>) {
    let st = world.read_storage::<C>();
    let g = st.get(e);
    let chk = g.map(|c| c.check()).unwrap_or(Ok(()));
    (g.map(|c| c.ident()), st.contains(e), chk)
}

/// The same lookup through one of the four GenericReadStorage impls.
fn st_get_generic<C: ZooComp>(world: &World, e: Entity) -> Option<Ident> {
    match e.id() % 4 {
        0 => {
            let st = world.read_storage::<C>();
            crate::stoseq::gr_get(&st, e)
        }
        1 => crate::stoseq::gr_get(world.read_storage::<C>(), e),
        2 => crate::stoseq::gr_get(world.write_storage::<C>(), e),
        _ => {
            let ws = world.write_storage::<C>();
            crate::stoseq::gr_get(&ws, e)
        }
    }
}

fn st_contains<C: ZooComp>(world: &World, e: Entity) -> bool {
    world.read_storage::<C>().contains(e)
}

fn st_insert<C: ZooComp>(world: &World, e: Entity, payload: u32) -> (bool, Option<Ident>, Ident) {
    let c = C::make(payload);
    let new = c.ident();
    // inherent method / GenericWriteStorage for WriteStorage / GenericWriteStorage for &mut WriteStorage
    let r: Result<Option<C>, ()> = match payload % 3 {
        0 => world.write_storage::<C>().insert(e, c).map_err(|_| ()),
        1 => crate::stoseq::gw_insert(world.write_storage::<C>(), e, c),
        _ => {
            let mut st = world.write_storage::<C>();
            crate::stoseq::gw_insert(&mut st, e, c)
        }
    };
    match r {
        Ok(old) => {
            let id = old.as_ref().map(|o| o.ident());
            caller_drop(old);
            (true, id, new)
        }
        Err(_) => (false, None, new),
    }
}

fn st_remove<C: ZooComp>(world: &World, e: Entity) -> Option<Ident> {
    let r = world.write_storage::<C>().remove(e);
    let id = r.as_ref().map(|o| o.ident());
    caller_drop(r);
    id
}

fn st_get_mut<C: ZooComp>(world: &World, e: Entity, payload: u32) -> Option<Ident> {
    match payload % 3 {
        0 => {
            let mut st = world.write_storage::<C>();
            let r = st.get_mut(e).map(|mut a| {
                let id = a.ident();
                a.access_mut().set_payload(payload);
                id
            });
            r
        }
        1 => crate::stoseq::gw_get_mut(world.write_storage::<C>(), e, Some(payload)),
        _ => {
            let mut st = world.write_storage::<C>();
            crate::stoseq::gw_get_mut(&mut st, e, Some(payload))
        }
    }
}

/// `Err(())` = entry refused; `Ok((was_occupied, old ident, returned/removed ident, new ident))`
fn st_entry<C: ZooComp>(
    world: &World,
    e: Entity,
    act: &EntryAct,
) -> Result<(bool, Option<Ident>, Option<Ident>), ()> {
    use specs::storage::StorageEntry;
    let mut st = world.write_storage::<C>();
    let entry = match st.entry(e) {
        Ok(en) => en,
        Err(_) => return Err(()),
    };
    let occupied = matches!(entry, StorageEntry::Occupied(_));
    let res = match act {
        EntryAct::OrInsert(p) => {
            let c = C::make(*p);
            let new = c.ident();
            let a = entry.or_insert(c);
            let got = a.ident();
            drop(a);
            // `new` is destroyed by the library when the entry was occupied
            (Some(got), Some(new))
        }
        EntryAct::Replace(p) => {
            let c = C::make(*p);
            let new = c.ident();
            let old = entry.replace(c);
            let id = old.as_ref().map(|o| o.ident());
            caller_drop(old);
            (id, Some(new))
        }
        EntryAct::Remove => match entry {
            StorageEntry::Occupied(o) => {
                let val = o.remove();
                let id = val.ident();
                caller_drop(val);
                (Some(id), None)
            }
            StorageEntry::Vacant(_) => (None, None),
        },
        EntryAct::GetMut(p) => match entry {
            StorageEntry::Occupied(mut o) => {
                let before = o.get().ident();
                let mut a = o.get_mut();
                a.access_mut().set_payload(*p);
                (Some(before), None)
            }
            StorageEntry::Vacant(_) => (None, None),
        },
    };
    Ok((occupied, res.0, res.1))
}

fn st_get_or_default<C: ZooComp>(world: &World, e: Entity, payload: u32) -> Option<Ident> {
    // both GenericWriteStorage impls: for WriteStorage and for &mut WriteStorage
    if payload % 2 == 0 {
        crate::stoseq::gw_get_or_default(world.write_storage::<C>(), e, Some(payload))
    } else {
        let mut st = world.write_storage::<C>();
        crate::stoseq::gw_get_or_default(&mut st, e, Some(payload))
    }
}

/// lookups by entity through lending joins; returns the idents seen by the
/// three variants (plain / with entities / maybe) or None
fn st_lend_get<C: ZooComp>(
    world: &World,
    e: Entity,
    payload: u32,
) -> (Option<Ident>, Option<Ident>, Option<Option<Ident>>) {
    let ents = world.entities();
    let mut st = world.write_storage::<C>();
    let a = {
        let mut j = (&st,).lend_join();
        let r = j.get(e, &ents).map(|(c,)| c.ident());
        r
    };
    let b = {
        let mut j = (&ents, &mut st).lend_join();
        let r = j.get(e, &ents).map(|(_, mut c)| {
            let id = c.ident();
            c.access_mut().set_payload(payload);
            id
        });
        r
    };
    let c = {
        let mut j = (&ents, (&mut st).maybe()).lend_join();
        let r = j.get(e, &ents).map(|(_, m)| {
            m.map(|mut c| {
                let id = c.ident();
                c.access_mut().set_payload(payload);
                id
            })
        });
        r
    };
    (a, b, c)
}

/// Lending joins whose mask does not depend on the entity being alive: an optional member alone, the
/// entries of the storage, the negated storage.  `(maybe, entry occupied?, anti)`.
fn st_lend_get_unbounded<C: ZooComp>(world: &World, e: Entity) -> (Option<Option<Ident>>, Option<bool>, bool) {
    let ents = world.entities();
    let mut st = world.write_storage::<C>();
    let d1 = {
        let mut j = ((&st).maybe(),).lend_join();
        let r = j.get(e, &ents).map(|(o,)| o.map(|c| c.ident()));
        r
    };
    let d2 = {
        let mut j = (st.entries(),).lend_join();
        let r = j.get(e, &ents).map(|(en,)| matches!(en, specs::storage::StorageEntry::Occupied(_)));
        r
    };
    let d3 = {
        let mut j = (!&st,).lend_join();
        let r = j.get(e, &ents).is_some();
        r
    };
    (d1, d2, d3)
}

/// `get_other` / `get_other_mut` through the first item of the restricted
/// joins; None if the storage is empty (no item to ask).
fn st_restrict_other<C: ZooComp>(
    world: &World,
    e: Entity,
    payload: u32,
) -> Option<(Option<Ident>, Option<Ident>, Option<Ident>)> {
    use specs::hibitset::BitSetLike;
    let ents = world.entities();
    let mut st = world.write_storage::<C>();
    // probe from the item that sits on the probed handle's own index when there is one (that is where a
    // stale handle and its successor meet), otherwise from the first item
    let target = if st.mask().contains(e.id()) { Some(e.id()) } else { st.mask().iter().next() };
    let target = target?;
    let shared = {
        let r = st.restrict();
        let x = (&*ents, &r).join().find(|(ent, _)| ent.id() == target).map(|(_, item)| item.get_other(e).map(|c| c.ident()));
        x
    };
    let shared = shared?;
    let mut r = st.restrict_mut();
    let mut j = (&*ents, &mut r).lend_join();
    let mut item = loop {
        let (ent, item) = j.next()?;
        if ent.id() == target {
            break item;
        }
    };
    let ex = item.get_other(e).map(|c| c.ident());
    let exm = item.get_other_mut(e).map(|mut a| {
        let id = a.ident();
        a.access_mut().set_payload(payload);
        id
    });
    Some((shared, ex, exm))
}

fn lazy_insert<C: ZooComp>(world: &World, e: Entity, payload: u32) -> Ident {
    let c = C::make(payload);
    let id = c.ident();
    world.read_resource::<LazyUpdate>().insert(e, c);
    id
}

fn lazy_insert_all<C: ZooComp>(world: &World, items: &[(Entity, u32)]) -> Vec<Ident> {
    let vals: Vec<(Entity, C)> = items.iter().map(|(e, p)| (*e, C::make(*p))).collect();
    let ids = vals.iter().map(|(_, c)| c.ident()).collect();
    // the batch arrives as a Vec or as an iterator that cannot promise any element up front
    if items.len() % 2 == 0 {
        world.read_resource::<LazyUpdate>().insert_all(vals);
    } else {
        world.read_resource::<LazyUpdate>().insert_all(vals.into_iter().filter(|_| true));
    }
    ids
}

fn lazy_remove<C: ZooComp>(world: &World, e: Entity) {
    world.read_resource::<LazyUpdate>().remove::<C>(e);
}

fn closure_insert_now<C: ZooComp>(world: &World, e: Entity, payload: u32, log: &Log) {
    let c = C::make(payload);
    let new = c.ident();
    let r = world.write_storage::<C>().insert(e, c);
    let entry = match r {
        Ok(old) => {
            let id = old.as_ref().map(|o| o.ident());
            caller_drop(old);
            LogEntry::Inserted { ok: true, old: id, new }
        }
        Err(_) => LogEntry::Inserted { ok: false, old: None, new },
    };
    log.lock().unwrap().push(entry);
}

fn closure_lazy_insert<C: ZooComp>(world: &World, e: Entity, payload: u32, log: &Log) {
    let c = C::make(payload);
    log.lock().unwrap().push(LogEntry::QueuedValue(c.ident()));
    world.read_resource::<LazyUpdate>().insert(e, c);
}

fn run_body(world: &mut World, kinds: &Arc<Vec<Kind>>, body: RExec, log: &Log) {
    log.lock().unwrap().push(LogEntry::Ran(body.id));
    for step in body.steps {
        match step {
            RStep::Observe(hs) => {
                let obs: Vec<(bool, Vec<bool>)> = hs
                    .iter()
                    .map(|h| {
                        let alive = world.entities().is_alive(*h);
                        let cs = kinds
                            .iter()
                            .map(|k| with_kind!(*k, st_contains(world, *h)))
                            .collect();
                        (alive, cs)
                    })
                    .collect();
                let masks: Vec<Vec<u32>> = kinds.iter().map(|k| with_kind!(*k, st_mask(world))).collect();
                log.lock().unwrap().push(LogEntry::Observed(obs, masks));
            }
            RStep::MaintainInside => {
                world.maintain();
            }
            RStep::CreateAtomic => {
                let e = world.entities().create();
                log.lock().unwrap().push(LogEntry::Created(e));
            }
            RStep::CreateNow => {
                let e = world.create_entity().build();
                log.lock().unwrap().push(LogEntry::Created(e));
            }
            RStep::CreateNowWith(slot, p) => {
                let b = world.create_entity();
                let (b, id) = with_kind!(kinds[slot], builder_with(b, p));
                let e = b.build();
                log.lock().unwrap().push(LogEntry::CreatedWith(e, id));
            }
            RStep::LazyCreateWith(slot, p) => {
                let (e, id) = {
                    let ents = world.entities();
                    let lazy = world.read_resource::<LazyUpdate>();
                    let b = lazy.create_entity(&ents);
                    let (b, id) = with_kind!(kinds[slot], lazy_builder_with(b, p));
                    (b.build(), id)
                };
                log.lock().unwrap().push(LogEntry::CreatedWith(e, id));
            }
            RStep::OtherWorld => {
                let mut w2 = World::new();
                let ran = Arc::new(Mutex::new(0u32));
                let r2 = ran.clone();
                let e2 = w2.entities().create();
                w2.read_resource::<LazyUpdate>().exec(move |_| *r2.lock().unwrap() += 1);
                w2.maintain();
                let merged = w2.is_alive(e2);
                let n = *ran.lock().unwrap();
                log.lock().unwrap().push(LogEntry::OtherWorldRan(n == 1, merged));
            }
            RStep::DeleteNow(h) => {
                let r = world.delete_entity(h).is_ok();
                log.lock().unwrap().push(LogEntry::DelResult(r));
            }
            RStep::DeleteAtomic(h) => {
                let r = world.entities().delete(h).is_ok();
                log.lock().unwrap().push(LogEntry::DelResult(r));
            }
            RStep::InsertNow(slot, h, p) => {
                with_kind!(kinds[slot], closure_insert_now(world, h, p, log));
            }
            RStep::Nested(b) => {
                let k = kinds.clone();
                let l = log.clone();
                if b.id % 2 == 0 {
                    world.read_resource::<LazyUpdate>().exec(move |w| run_body(w, &k, b, &l));
                } else {
                    world.read_resource::<LazyUpdate>().exec_mut(move |w| run_body(w, &k, b, &l));
                }
            }
            RStep::LazyInsert(slot, h, p) => {
                with_kind!(kinds[slot], closure_lazy_insert(world, h, p, log));
            }
            RStep::LazyRemove(slot, h) => {
                with_kind!(kinds[slot], lazy_remove(world, h));
            }
        }
    }
}

impl Interp {
    pub fn new(storages: &[(Kind, u8)], transcript: bool) -> Interp {
        zoo::ledger_reset();
        let mut world = World::new();
        let mut kinds = vec![];
        let mut start_off: Vec<bool> = vec![];
        for (k, path) in storages {
            if kinds.contains(k) {
                continue;
            }
            kinds.push(*k);
            with_kind!(*k, register_path(&mut world, *path & 0x7f));
            // bit 7 of the path byte: a tracked storage starts with event emission switched off
            start_off.push(*path & 0x80 != 0);
        }
        world.register::<specs::saveload::SimpleMarker<HistTag>>();
        world.insert(specs::saveload::SimpleMarkerAllocator::<HistTag>::new());
        let n = kinds.len();
        let readers = kinds
            .iter()
            .map(|k| with_kind!(*k, st_register_reader(&world)))
            .collect();
        let mut emission = vec![true; n];
        for (slot, k) in kinds.iter().enumerate() {
            if start_off[slot] && with_kind!(*k, st_set_emission(&world, false)) {
                emission[slot] = false;
            }
        }
        Interp {
            drain_mut: false,
            readers,
            emission,
            expect_destroyed: vec![],
            deferred_other: None,
            next_marker: 0,
            marker_owner: BTreeMap::new(),
            world: Some(world),
            kinds: Arc::new(kinds),
            handles: vec![],
            seen: HashSet::new(),
            occupant: BTreeMap::new(),
            used: BTreeSet::new(),
            peak: 0,
            comps: vec![BTreeMap::new(); n],
            queue: vec![],
            log: Arc::new(Mutex::new(vec![])),
            next_exec_id: 0,
            facts: Facts::default(),
            transcript: if transcript { Some(vec![]) } else { None },
            multi_dead: BTreeSet::new(),
            dead_since_maintain: BTreeSet::new(),
            any_death: false,
        }
    }

    fn w(&self) -> &World {
        self.world.as_ref().unwrap()
    }
    fn wm(&mut self) -> &mut World {
        self.world.as_mut().unwrap()
    }

    fn note(&mut self, f: impl FnOnce() -> String) {
        if let Some(t) = self.transcript.as_mut() {
            t.push(f());
        }
    }

    fn slot(&self, s: u8) -> Option<usize> {
        if self.kinds.is_empty() {
            None
        } else {
            Some(s as usize % self.kinds.len())
        }
    }

    fn alive(&self, hi: usize) -> bool {
        matches!(self.handles[hi].state, HState::Live { .. })
    }

    fn handle_index(&self, e: Entity) -> Option<usize> {
        // handles are few; a linear scan from the back is fine
        self.handles.iter().rposition(|h| h.e == e)
    }

    fn is_alive_entity(&self, e: Entity) -> bool {
        self.handle_index(e).map(|i| self.alive(i)).unwrap_or(false)
    }

    fn resolve(&self, sel: Sel) -> Option<usize> {
        if self.handles.is_empty() {
            return None;
        }
        let pick = |cands: &[usize], s: u16| -> Option<usize> {
            if cands.is_empty() {
                None
            } else {
                Some(cands[(s as usize * cands.len()) >> 16])
            }
        };
        match sel {
            Sel::Any(s) => Some((s as usize * self.handles.len()) >> 16),
            Sel::Live(s) => {
                let c: Vec<usize> = (0..self.handles.len()).filter(|i| self.alive(*i)).collect();
                pick(&c, s).or(Some((s as usize * self.handles.len()) >> 16))
            }
            Sel::Dead(s) => {
                // prefer dead handles whose index is occupied again
                let c: Vec<usize> = (0..self.handles.len())
                    .filter(|i| !self.alive(*i) && self.occupant.contains_key(&self.handles[*i].e.id()))
                    .collect();
                let d: Vec<usize> = (0..self.handles.len()).filter(|i| !self.alive(*i)).collect();
                if !c.is_empty() && s % 4 != 0 {
                    pick(&c, s)
                } else {
                    pick(&d, s).or(Some((s as usize * self.handles.len()) >> 16))
                }
            }
        }
    }

    // -- model transitions --------------------------------------------------

    /// Validates a freshly returned handle (C01, C17) and records it.
    fn on_created(&mut self, e: Entity, merged: bool, pending: bool, path: &str) -> Verdict {
        let id = e.id();
        if self.seen.contains(&e) {
            let dup = v("C01", "dup-handle", format!("{} returned {:?}, a handle that was returned before", path, e));
            let focus = crate::engine::focus();
            // A re-issued handle whose first owner is dead is C01's business, but what the dead
            // owner's copy of the handle can now reach is C03 / C05 / ...'s: when another property
            // is being checked, keep the old (dead) handle beside the new (live) one and go on, so
            // that the stale-handle and purge oracles get to see the consequences.
            if focus.is_empty() || focus == "C01" || self.occupant.contains_key(&id) {
                return Err(dup);
            }
            if self.deferred_other.is_none() {
                self.deferred_other = Some(dup);
            }
        }
        ensure!("C01", "gen-not-positive", e.gen().id() > 0, "{} returned {:?} with a non-positive generation", path, e);
        if let Some(&o) = self.occupant.get(&id) {
            return Err(v(
                "C01",
                "index-shared",
                format!(
                    "{} returned {:?} although index {} is occupied by the not-yet-dead {:?}",
                    path, e, id, self.handles[o].e
                ),
            ));
        }
        let live = self.occupant.len();
        let new_peak = self.peak.max(live + 1);
        let reused = self.used.contains(&id);
        if (id as usize) >= new_peak {
            let free: Vec<u32> = self.used.iter().filter(|i| !self.occupant.contains_key(i)).cloned().take(5).collect();
            let sig = if reused { "index-above-peak" } else { "fresh-index-while-dead-index-free" };
            return Err(v(
                "C17",
                sig,
                format!(
                    "{} returned index {} but at most {} entities were ever simultaneously not yet dead (now {} + 1); dead unused indices include {:?}",
                    path, id, new_peak, live, free
                ),
            ));
        }
        if !reused {
            ensure!(
                "C17",
                "fresh-index-while-dead-index-free",
                self.occupant.len() == id as usize && self.used.len() == id as usize,
                "{} took the never-used index {} while only {} lower indices are occupied ({} used)",
                path, id, self.occupant.len(), self.used.len()
            );
        }
        self.peak = new_peak;
        self.facts.creations += 1;
        if reused {
            self.facts.index_reuse += 1;
            if self.dead_since_maintain.contains(&id) {
                self.facts.reuse_before_maintain += 1;
            }
            if self.multi_dead.remove(&id) {
                self.facts.multi_storage_death_then_reuse += 1;
            }
        }
        if self.any_death {
            self.facts.death_then_creation += 1;
        }
        self.used.insert(id);
        self.seen.insert(e);
        self.handles.push(Handle { e, state: HState::Live { merged, pending } });
        self.occupant.insert(id, self.handles.len() - 1);
        Ok(())
    }

    /// The entity dies now; its components are purged in the model.
    fn kill(&mut self, hi: usize) {
        let id = self.handles[hi].e.id();
        self.handles[hi].state = HState::Dead;
        self.occupant.remove(&id);
        let mut n = 0;
        for (slot, c) in self.comps.iter_mut().enumerate() {
            if let Some(ident) = c.remove(&id) {
                n += 1;
                self.expect_destroyed.push((ident.0, id, self.kinds[slot]));
            }
        }
        if n >= 2 {
            self.facts.multi_storage_death += 1;
            self.multi_dead.insert(id);
        }
        self.dead_since_maintain.insert(id);
        self.any_death = true;
        self.facts.deaths += 1;
    }

    // -- ops ------------------------------------------------------------------

    pub fn step(&mut self, op: &Op) -> Verdict {
        // events of earlier operations have been recorded (transcripts) or are nobody's business
        if self.transcript.is_none() {
            for slot in 0..self.kinds.len() {
                let _ = self.drain_events(slot);
            }
        }
        match op {
            Op::CreateNow { comps, built } => {
                let kinds = self.kinds.clone();
                let mut added: Vec<(usize, Ident)> = vec![];
                let e = {
                    let slots: Vec<(usize, u32)> = comps
                        .iter()
                        .filter_map(|(s, p)| self.slot(*s).map(|s| (s, *p)))
                        .collect();
                    let unchecked = comps.len() >= 2 && comps[0].1 % 2 == 1;
                    let world = self.wm();
                    // both entry points build the same kind of builder
                    let mut b = if unchecked { world.create_entity_unchecked() } else { world.create_entity() };
                    let e = b.entity;
                    for (s, p) in slots {
                        let (nb, id) = with_kind!(kinds[s], builder_with(b, p));
                        b = nb;
                        added.push((s, id));
                    }
                    if *built {
                        let r = b.build();
                        assert_eq!(r, e);
                    } else if comps.len() % 2 == 1 {
                        // the unfinished builder is dropped by a panic unwinding through the building code
                        let r = std::panic::catch_unwind(std::panic::AssertUnwindSafe(move || {
                            let _b = b;
                            panic!("verif-unwind: panic while an unfinished builder is live");
                        }));
                        assert!(r.is_err());
                        let _ = crate::engine::take_last_panic();
                    } else {
                        drop(b);
                    }
                    e
                };
                self.on_created(e, true, !*built, "World::create_entity")?;
                if !*built {
                    self.facts.dropped_builder += 1;
                }
                for (s, id) in added {
                    if self.comps[s].insert(e.id(), id).is_some() {
                        self.facts.overwrite_or_remove += 1;
                    }
                }
                self.note(|| format!("create_now {:?} built={}", e, built));
            }
            Op::CreateIterNow(n) => {
                let es: Vec<Entity> = self.wm().create_iter().take(*n as usize % 6).collect();
                for e in &es {
                    self.on_created(*e, true, false, "World::create_iter")?;
                }
                self.note(|| format!("create_iter {:?}", es));
            }
            Op::CreateAtomic => {
                let e = self.w().entities().create();
                self.on_created(e, false, false, "Entities::create")?;
                self.note(|| format!("create_atomic {:?}", e));
            }
            Op::CreateIterAtomic(n) => {
                let es: Vec<Entity> = self.w().entities().create_iter().take(*n as usize % 6).collect();
                for e in &es {
                    self.on_created(*e, false, false, "Entities::create_iter")?;
                }
                self.note(|| format!("create_iter_atomic {:?}", es));
            }
            Op::BuildEntity { comps, built } => {
                let kinds = self.kinds.clone();
                let slots: Vec<(usize, u32)> = comps
                    .iter()
                    .filter_map(|(s, p)| self.slot(*s).map(|s| (s, *p)))
                    .collect();
                let mut added = vec![];
                let e = {
                    let world = self.w();
                    let ents = world.entities();
                    let mut b = ents.build_entity();
                    let e = b.entity;
                    for (s, p) in slots {
                        let (nb, id) = with_kind!(kinds[s], res_builder_with(world, b, p));
                        b = nb;
                        added.push((s, id));
                    }
                    if *built {
                        b.build();
                    } else if comps.len() % 2 == 1 {
                        let r = std::panic::catch_unwind(std::panic::AssertUnwindSafe(move || {
                            let _b = b;
                            panic!("verif-unwind: panic while an unfinished builder is live");
                        }));
                        assert!(r.is_err());
                        let _ = crate::engine::take_last_panic();
                    } else {
                        drop(b);
                    }
                    e
                };
                self.on_created(e, false, !*built, "Entities::build_entity")?;
                if !*built {
                    self.facts.dropped_builder += 1;
                }
                for (s, id) in added {
                    if self.comps[s].insert(e.id(), id).is_some() {
                        self.facts.overwrite_or_remove += 1;
                    }
                }
                self.note(|| format!("build_entity {:?} built={}", e, built));
            }
            Op::LazyCreate { comps } => {
                let kinds = self.kinds.clone();
                let slots: Vec<(usize, u32)> = comps
                    .iter()
                    .filter_map(|(s, p)| self.slot(*s).map(|s| (s, *p)))
                    .collect();
                let mut queued = vec![];
                let e = {
                    let world = self.w();
                    let ents = world.entities();
                    let lazy = world.read_resource::<LazyUpdate>();
                    let mut b = lazy.create_entity(&ents);
                    let e = b.entity;
                    for (s, p) in slots {
                        let (nb, id) = with_kind!(kinds[s], lazy_builder_with(b, p));
                        b = nb;
                        queued.push((s, id));
                    }
                    b.build();
                    e
                };
                self.on_created(e, false, false, "LazyUpdate::create_entity")?;
                for (s, id) in queued {
                    self.queue.push(QItem::Insert { slot: s, e, ident: id });
                }
                self.note(|| format!("lazy_create {:?}", e));
            }
            Op::DeleteNow(sel) => {
                let hi = match self.resolve(*sel) {
                    Some(h) => h,
                    None => {
                        self.facts.skipped_ops += 1;
                        return Ok(());
                    }
                };
                let e = self.handles[hi].e;
                let expect_ok = self.alive(hi);
                let r = self.wm().delete_entity(e);
                self.check_delete_result("World::delete_entity", e, expect_ok, r.as_ref().map(|_| ()).map_err(|w| w.entity))?;
                if expect_ok {
                    self.kill(hi);
                } else {
                    self.facts.stale_delete += 1;
                    for slot in 0..self.kinds.len() {
                        self.check_slot_index("C03", slot, e.id(), "a deletion through a dead handle")?;
                    }
                }
                self.note(|| format!("delete_now {:?} -> {:?}", e, r.is_ok()));
            }
            Op::DeleteBatch(sels) => {
                let his: Vec<usize> = sels.iter().filter_map(|s| self.resolve(*s)).collect();
                if his.is_empty() {
                    self.facts.skipped_ops += 1;
                    return Ok(());
                }
                let es: Vec<Entity> = his.iter().map(|h| self.handles[*h].e).collect();
                let mut uniq = HashSet::new();
                if !es.iter().all(|e| uniq.insert(*e)) {
                    self.facts.batch_with_repeat += 1;
                }
                // model: kill in order until the first dead handle
                let mut expect: Result<(), usize> = Ok(());
                let mut to_kill = vec![];
                let mut killed_here = HashSet::new();
                for (k, hi) in his.iter().enumerate() {
                    if !self.alive(*hi) || killed_here.contains(hi) {
                        expect = Err(k);
                        break;
                    }
                    killed_here.insert(*hi);
                    to_kill.push(*hi);
                }
                let r = self.wm().delete_entities(&es);
                match (&r, &expect) {
                    (Ok(()), Ok(())) => {}
                    (Err((wg, k)), Err(ek)) => {
                        ensure!("C02", "batch-position", k == ek,
                            "delete_entities({:?}) reported failing position {} but the first dead handle is at {}", es, k, ek);
                        ensure!("C02", "batch-error-entity", wg.entity == es[*ek],
                            "delete_entities error names {:?}, expected {:?}", wg.entity, es[*ek]);
                    }
                    (Ok(()), Err(ek)) => {
                        return Err(v("C02", "batch-should-fail", format!(
                            "delete_entities({:?}) returned Ok although the handle at position {} is dead", es, ek)));
                    }
                    (Err((_, k)), Ok(())) => {
                        return Err(v("C02", "batch-should-succeed", format!(
                            "delete_entities({:?}) failed at position {} although every handle was alive", es, k)));
                    }
                }
                if expect.is_err() {
                    self.facts.failing_batch += 1;
                }
                let dead_named: Vec<Entity> = his.iter().filter(|h| !self.alive(**h)).map(|h| self.handles[*h].e).collect();
                for hi in to_kill {
                    self.kill(hi);
                }
                // a dead handle named in a batch is refused; whoever sits on its index now keeps everything
                for e in dead_named {
                    for slot in 0..self.kinds.len() {
                        self.check_slot_index("C03", slot, e.id(), "a batch deletion that names a dead handle")?;
                    }
                }
                self.note(|| format!("delete_batch {:?} -> {:?}", es, r.as_ref().map_err(|(_, k)| *k)));
            }
            Op::DeleteTwice(sel) => {
                self.step(&Op::DeleteAtomic(*sel))?;
                return self.step(&Op::DeleteNow(*sel));
            }
            Op::DeleteAtomic(sel) => {
                let hi = match self.resolve(*sel) {
                    Some(h) => h,
                    None => {
                        self.facts.skipped_ops += 1;
                        return Ok(());
                    }
                };
                let e = self.handles[hi].e;
                let expect_ok = self.alive(hi);
                let r = self.w().entities().delete(e);
                self.check_delete_result("Entities::delete", e, expect_ok, r.as_ref().map(|_| ()).map_err(|w| w.entity))?;
                if expect_ok {
                    if let HState::Live { merged, .. } = self.handles[hi].state {
                        self.handles[hi].state = HState::Live { merged, pending: true };
                    }
                } else {
                    self.facts.stale_delete += 1;
                }
                self.note(|| format!("delete_atomic {:?} -> {:?}", e, r.is_ok()));
            }
            Op::DeleteAll => {
                self.wm().delete_all();
                let all: Vec<usize> = self.occupant.values().cloned().collect();
                for hi in all {
                    self.kill(hi);
                }
                self.facts.delete_all += 1;
                self.note(|| "delete_all".to_string());
            }
            Op::Maintain => self.maintain()?,
            Op::Insert(s, sel, p) => {
                let (slot, hi) = match (self.slot(*s), self.resolve(*sel)) {
                    (Some(a), Some(b)) => (a, b),
                    _ => {
                        self.facts.skipped_ops += 1;
                        return Ok(());
                    }
                };
                let e = self.handles[hi].e;
                let kind = self.kinds[slot];
                let (ok, old, new) = with_kind!(kind, st_insert(self.w(), e, *p));
                if self.alive(hi) {
                    let mold = self.comps[slot].get(&e.id()).cloned();
                    ensure!("C05", "insert-live-refused", ok, "insert for the live {:?} into {:?} was refused", e, kind);
                    ensure!("C05", "insert-old-value", old == mold,
                        "insert for {:?} into {:?} returned old value {:?}, the model holds {:?}", e, kind, old, mold);
                    if mold.is_some() {
                        self.facts.overwrite_or_remove += 1;
                    }
                    self.comps[slot].insert(e.id(), new);
                } else {
                    self.stale_access(slot, e);
                    ensure!("C03", "stale-insert-accepted", !ok,
                        "insert through the dead handle {:?} into {:?} was accepted (returned old value {:?})", e, kind, old);
                    if !kind.zst() {
                        let st = with_ledger(|l| l.state_of(new.0));
                        ensure!("C03", "stale-insert-value-kept", st != Some(St::Live),
                            "the value refused by insert through the dead handle {:?} is still alive somewhere", e);
                    }
                    self.check_slot_index("C03", slot, e.id(), "insert through a dead handle")?;
                    self.no_events_for_refused_access(slot, e, "insert")?;
                }
                self.note(|| format!("insert {:?} {:?} -> ok={} old={:?}", kind, e, ok, old.map(|o| o.1)));
            }
            Op::Remove(s, sel) => {
                let (slot, hi) = match (self.slot(*s), self.resolve(*sel)) {
                    (Some(a), Some(b)) => (a, b),
                    _ => {
                        self.facts.skipped_ops += 1;
                        return Ok(());
                    }
                };
                let e = self.handles[hi].e;
                let kind = self.kinds[slot];
                let got = with_kind!(kind, st_remove(self.w(), e));
                if self.alive(hi) {
                    let mold = self.comps[slot].remove(&e.id());
                    ensure!("C05", "remove-value", got == mold,
                        "remove for {:?} from {:?} returned {:?}, the model holds {:?}", e, kind, got, mold);
                    if mold.is_some() {
                        self.facts.overwrite_or_remove += 1;
                    }
                } else {
                    self.stale_access(slot, e);
                    ensure!("C03", "stale-remove-returned", got.is_none(),
                        "remove through the dead handle {:?} from {:?} returned {:?}", e, kind, got);
                    self.check_slot_index("C03", slot, e.id(), "remove through a dead handle")?;
                    self.no_events_for_refused_access(slot, e, "remove")?;
                }
                self.note(|| format!("remove {:?} {:?} -> {:?}", kind, e, got.map(|o| o.1)));
            }
            Op::GetMut(s, sel, p) => {
                let (slot, hi) = match (self.slot(*s), self.resolve(*sel)) {
                    (Some(a), Some(b)) => (a, b),
                    _ => {
                        self.facts.skipped_ops += 1;
                        return Ok(());
                    }
                };
                let e = self.handles[hi].e;
                let kind = self.kinds[slot];
                let got = with_kind!(kind, st_get_mut(self.w(), e, *p));
                if self.alive(hi) {
                    let m = self.comps[slot].get(&e.id()).cloned();
                    ensure!("C05", "get_mut-value", got == m,
                        "get_mut for {:?} in {:?} saw {:?}, the model holds {:?}", e, kind, got, m);
                    if let Some(x) = self.comps[slot].get_mut(&e.id()) {
                        if !kind.zst() {
                            x.1 = *p;
                        }
                    }
                } else {
                    self.stale_access(slot, e);
                    ensure!("C03", "stale-get_mut", got.is_none(),
                        "get_mut through the dead handle {:?} in {:?} handed out {:?}", e, kind, got);
                    self.check_slot_index("C03", slot, e.id(), "get_mut through a dead handle")?;
                    self.no_events_for_refused_access(slot, e, "get_mut")?;
                }
                self.note(|| format!("get_mut {:?} {:?} -> {:?}", kind, e, got.map(|o| o.1)));
            }
            Op::Entry(s, sel, act) => {
                let (slot, hi) = match (self.slot(*s), self.resolve(*sel)) {
                    (Some(a), Some(b)) => (a, b),
                    _ => {
                        self.facts.skipped_ops += 1;
                        return Ok(());
                    }
                };
                let e = self.handles[hi].e;
                let kind = self.kinds[slot];
                let r = with_kind!(kind, st_entry(self.w(), e, act));
                if self.alive(hi) {
                    let m = self.comps[slot].get(&e.id()).cloned();
                    let (occ, got, new) = match r {
                        Ok(x) => x,
                        Err(()) => return Err(v("C05", "entry-live-refused", format!("entry for the live {:?} in {:?} was refused", e, kind))),
                    };
                    ensure!("C05", "entry-occupancy", occ == m.is_some(),
                        "entry for {:?} in {:?} is occupied={} but the model holds {:?}", e, kind, occ, m);
                    match act {
                        EntryAct::OrInsert(_) => {
                            let expect = m.or(new);
                            ensure!("C05", "entry-or_insert", got == expect, "or_insert for {:?} in {:?} yields {:?}, expected {:?}", e, kind, got, expect);
                            self.comps[slot].insert(e.id(), expect.unwrap());
                        }
                        EntryAct::Replace(_) => {
                            ensure!("C05", "entry-replace", got == m, "replace for {:?} in {:?} returned {:?}, expected {:?}", e, kind, got, m);
                            self.comps[slot].insert(e.id(), new.unwrap());
                            if m.is_some() {
                                self.facts.overwrite_or_remove += 1;
                            }
                        }
                        EntryAct::Remove => {
                            ensure!("C05", "entry-remove", got == m, "entry remove for {:?} in {:?} returned {:?}, expected {:?}", e, kind, got, m);
                            if self.comps[slot].remove(&e.id()).is_some() {
                                self.facts.overwrite_or_remove += 1;
                            }
                        }
                        EntryAct::GetMut(p) => {
                            ensure!("C05", "entry-get_mut", got == m, "entry get_mut for {:?} in {:?} saw {:?}, expected {:?}", e, kind, got, m);
                            if let Some(x) = self.comps[slot].get_mut(&e.id()) {
                                if !kind.zst() {
                                    x.1 = *p;
                                }
                            }
                        }
                    }
                } else {
                    self.stale_access(slot, e);
                    ensure!("C03", "stale-entry", r.is_err(),
                        "entry through the dead handle {:?} in {:?} was granted", e, kind);
                    self.check_slot_index("C03", slot, e.id(), "entry through a dead handle")?;
                    self.no_events_for_refused_access(slot, e, "entry")?;
                }
                self.note(|| format!("entry {:?} {:?} {:?} -> {:?}", kind, e, act, r.map(|(o, g, _)| (o, g.map(|g| g.1)))));
            }
            Op::GetOrDefault(s, sel, p) => {
                let (slot, hi) = match (self.slot(*s), self.resolve(*sel)) {
                    (Some(a), Some(b)) => (a, b),
                    _ => {
                        self.facts.skipped_ops += 1;
                        return Ok(());
                    }
                };
                let e = self.handles[hi].e;
                let kind = self.kinds[slot];
                let got = with_kind!(kind, st_get_or_default(self.w(), e, *p));
                if self.alive(hi) {
                    let m = self.comps[slot].get(&e.id()).cloned();
                    ensure!("C05", "get_or_default-none", got.is_some(), "get_mut_or_default for the live {:?} in {:?} returned None", e, kind);
                    if let Some(m) = m {
                        ensure!("C05", "get_or_default-value", got == Some(m), "get_mut_or_default for {:?} in {:?} saw {:?}, expected {:?}", e, kind, got, m);
                    } else {
                        ensure!("C05", "get_or_default-fresh", got.map(|g| g.1) == Some(0), "get_mut_or_default for {:?} in {:?} created {:?}, expected a default value", e, kind, got);
                    }
                    let mut id = got.unwrap();
                    if !kind.zst() {
                        id.1 = *p;
                    }
                    self.comps[slot].insert(e.id(), id);
                } else {
                    self.stale_access(slot, e);
                    ensure!("C03", "stale-get_or_default", got.is_none(),
                        "get_mut_or_default through the dead handle {:?} in {:?} handed out {:?}", e, kind, got);
                    self.check_slot_index("C03", slot, e.id(), "get_mut_or_default through a dead handle")?;
                    self.no_events_for_refused_access(slot, e, "get_mut_or_default")?;
                }
                self.note(|| format!("get_or_default {:?} {:?} -> {:?}", kind, e, got.map(|o| o.1)));
            }
            Op::LendGet(s, sel, p) => {
                let (slot, hi) = match (self.slot(*s), self.resolve(*sel)) {
                    (Some(a), Some(b)) => (a, b),
                    _ => {
                        self.facts.skipped_ops += 1;
                        return Ok(());
                    }
                };
                let e = self.handles[hi].e;
                let kind = self.kinds[slot];
                let (d1, d2, d3) = with_kind!(kind, st_lend_get_unbounded(self.w(), e));
                let (a, b, c) = with_kind!(kind, st_lend_get(self.w(), e, *p));
                if self.alive(hi) {
                    let m = self.comps[slot].get(&e.id()).cloned();
                    ensure!("C06", "lend-get-unbounded", d1 == Some(m) && d2 == Some(m.is_some()) && d3 == m.is_none(),
                        "lookups of the live {:?} in {:?} through ((&s).maybe(),) / (s.entries(),) / (!&s,) gave {:?} / {:?} / {}, the component is {:?}", e, kind, d1, d2, d3, m);
                    ensure!("C06", "lend-get-shared", a == m, "(&s,).lend_join().get({:?}) in {:?} saw {:?}, expected {:?}", e, kind, a, m);
                    ensure!("C06", "lend-get-mut", b == m, "(&entities,&mut s).lend_join().get({:?}) in {:?} saw {:?}, expected {:?}", e, kind, b, m);
                    let mm = m.map(|mut x| {
                        if !kind.zst() {
                            x.1 = *p;
                        }
                        x
                    });
                    ensure!("C06", "lend-get-maybe", c == Some(mm), "(&entities,(&mut s).maybe()).lend_join().get({:?}) in {:?} saw {:?}, expected {:?}", e, kind, c, Some(mm));
                    if let Some(x) = self.comps[slot].get_mut(&e.id()) {
                        if !kind.zst() {
                            x.1 = *p;
                        }
                    }
                } else {
                    self.stale_access(slot, e);
                    ensure!("C03", "stale-lend-get-unbounded", d1.is_none() && d2.is_none() && !d3,
                        "lending-join lookup through the dead handle {:?} in {:?} via ((&s).maybe(),) / (s.entries(),) / (!&s,) returned {:?} / {:?} / {}", e, kind, d1, d2, d3);
                    ensure!("C03", "stale-lend-get", a.is_none() && b.is_none() && c.is_none(),
                        "lending-join lookup through the dead handle {:?} in {:?} returned {:?} / {:?} / {:?}", e, kind, a, b, c);
                    self.check_slot_index("C03", slot, e.id(), "lending-join lookup through a dead handle")?;
                    self.no_events_for_refused_access(slot, e, "lending-join lookup")?;
                }
                self.note(|| format!("lend_get {:?} {:?} -> {:?}", kind, e, (a.map(|x| x.1), b.map(|x| x.1), c.map(|x| x.map(|y| y.1)))));
            }
            Op::RestrictOther(s, sel, p) => {
                let (slot, hi) = match (self.slot(*s), self.resolve(*sel)) {
                    (Some(a), Some(b)) => (a, b),
                    _ => {
                        self.facts.skipped_ops += 1;
                        return Ok(());
                    }
                };
                let e = self.handles[hi].e;
                let kind = self.kinds[slot];
                // events of earlier operations are not this operation's business
                let earlier = self.drain_events(slot);
                let r = with_kind!(kind, st_restrict_other(self.w(), e, *p));
                let evs = self.drain_events(slot);
                if kind.tracked() {
                    let member = self.alive(hi) && self.comps[slot].contains_key(&e.id());
                    let mods: BTreeSet<u32> = evs.iter().filter_map(|ev| if let specs::storage::ComponentEvent::Modified(i) = ev { Some(*i) } else { None }).collect();
                    let other: Vec<&specs::storage::ComponentEvent> = evs.iter().filter(|ev| !matches!(ev, specs::storage::ComponentEvent::Modified(_))).collect();
                    ensure!("C13", "restrict-insert-remove-event", other.is_empty(), "get_other / get_other_mut on {:?} emitted {:?}", kind, other);
                    if !self.emission[slot] {
                        ensure!("C12", "event-while-off", evs.is_empty(), "events {:?} emitted on {:?} while emission is switched off", evs, kind);
                    } else if member && r.is_some() {
                        ensure!("C13", "restrict-missing-modified", mods.contains(&e.id()) && mods.len() == 1,
                            "get_other_mut({:?}) on {:?} wrote the component but the Modified events are {:?}", e, kind, mods);
                    } else {
                        ensure!("C13", "restrict-spurious-modified", mods.is_empty(),
                            "a refused / read-only lookup through a restricted {:?} storage (handle {:?}, alive={}) emitted Modified events {:?}: nothing was fetched mutably", kind, e, self.alive(hi), mods);
                    }
                }
                self.note(|| format!("events_before={:?} events={:?}", earlier, evs));
                ensure!("C13", "restrict-no-item", r.is_some() == !self.comps[slot].is_empty(),
                    "restricted join over {:?} yields an item = {} but the model has {} members", kind, r.is_some(), self.comps[slot].len());
                if let Some((sh, ex, exm)) = r {
                    if self.alive(hi) {
                        let m = self.comps[slot].get(&e.id()).cloned();
                        self.facts.restrict_other_live += 1;
                        ensure!("C13", "get_other", sh == m && ex == m && exm == m,
                            "get_other({:?}) in {:?} saw {:?} / {:?} / {:?}, expected {:?}", e, kind, sh, ex, exm, m);
                        if let Some(x) = self.comps[slot].get_mut(&e.id()) {
                            if !kind.zst() {
                                x.1 = *p;
                            }
                        }
                    } else {
                        self.stale_access(slot, e);
                        self.facts.restrict_other_stale += 1;
                        ensure!("C03", "stale-get_other", sh.is_none() && ex.is_none() && exm.is_none(),
                            "get_other through the dead handle {:?} in {:?} returned {:?} / {:?} / {:?}", e, kind, sh, ex, exm);
                        self.check_slot_index("C03", slot, e.id(), "get_other through a dead handle")?;
                    }
                    self.note(|| format!("restrict_other {:?} {:?} -> {:?}", kind, e, (sh.map(|x| x.1), ex.map(|x| x.1), exm.map(|x| x.1))));
                }
            }
            Op::LazyInsert(s, sel, p) => {
                let (slot, hi) = match (self.slot(*s), self.resolve(*sel)) {
                    (Some(a), Some(b)) => (a, b),
                    _ => {
                        self.facts.skipped_ops += 1;
                        return Ok(());
                    }
                };
                let e = self.handles[hi].e;
                let ident = with_kind!(self.kinds[slot], lazy_insert(self.w(), e, *p));
                self.queue.push(QItem::Insert { slot, e, ident });
                self.note(|| format!("lazy_insert {} {:?}", slot, e));
            }
            Op::LazyInsertAll(s, items) => {
                let slot = match self.slot(*s) {
                    Some(s) => s,
                    None => {
                        self.facts.skipped_ops += 1;
                        return Ok(());
                    }
                };
                let resolved: Vec<(Entity, u32)> = items
                    .iter()
                    .filter_map(|(sel, p)| self.resolve(*sel).map(|h| (self.handles[h].e, *p)))
                    .collect();
                let ids = with_kind!(self.kinds[slot], lazy_insert_all(self.w(), &resolved));
                for ((e, _), ident) in resolved.iter().zip(ids) {
                    self.queue.push(QItem::Insert { slot, e: *e, ident });
                }
                self.note(|| format!("lazy_insert_all {} {:?}", slot, resolved));
            }
            Op::LazyRemove(s, sel) => {
                let (slot, hi) = match (self.slot(*s), self.resolve(*sel)) {
                    (Some(a), Some(b)) => (a, b),
                    _ => {
                        self.facts.skipped_ops += 1;
                        return Ok(());
                    }
                };
                let e = self.handles[hi].e;
                with_kind!(self.kinds[slot], lazy_remove(self.w(), e));
                self.queue.push(QItem::Remove { slot, e });
                self.note(|| format!("lazy_remove {} {:?}", slot, e));
            }
            Op::Retrieve(sel) => {
                use specs::saveload::{MarkerAllocator, SimpleMarker, SimpleMarkerAllocator};
                if self.marker_owner.is_empty() {
                    self.facts.skipped_ops += 1;
                    return Ok(());
                }
                let keys: Vec<u64> = self.marker_owner.keys().cloned().collect();
                let id = keys[*sel as usize % keys.len()];
                let owner = self.marker_owner[&id];
                let marker: SimpleMarker<HistTag> = serde_json::from_str(&format!("[{}]", id)).expect("marker json");
                let got = {
                    let world = self.w();
                    let ents = world.entities();
                    let mut markers = world.write_storage::<SimpleMarker<HistTag>>();
                    let mut alloc = world.write_resource::<SimpleMarkerAllocator<HistTag>>();
                    alloc.retrieve_entity(marker, &mut markers, &ents)
                };
                if self.is_alive_entity(owner) {
                    ensure!("C15", "not-updated-in-place", got == owner, "retrieve_entity(marker {}) returned {:?} although the live {:?} carries that marker", id, got, owner);
                } else {
                    // the previous owner is dead: this is a creation
                    self.on_created(got, false, false, "MarkerAllocator::retrieve_entity (marker of a dead entity)")?;
                    self.marker_owner.insert(id, got);
                }
                self.note(|| format!("retrieve {} -> {:?}", id, got));
            }
            Op::SetEmission(sl, on) => {
                if let Some(slot) = self.slot(*sl) {
                    let kind = self.kinds[slot];
                    if with_kind!(kind, st_set_emission(self.w(), *on)) {
                        self.emission[slot] = *on;
                        self.note(|| format!("set_emission {:?} {}", kind, on));
                    } else {
                        self.facts.skipped_ops += 1;
                    }
                }
            }
            Op::Deserialize(n) => {
                use specs::saveload::{DeserializeComponents, Marker, SimpleMarker, SimpleMarkerAllocator};
                let n = (*n % 4) as u64;
                let ids: Vec<u64> = (0..n).map(|k| self.next_marker + k).collect();
                self.next_marker += n;
                let data = serde_json::Value::Array(ids.iter().map(|i| serde_json::json!({"marker": [i], "components": null})).collect()).to_string();
                let created: Vec<Entity> = {
                    let world = self.w();
                    let ents = world.entities();
                    let mut markers = world.write_storage::<SimpleMarker<HistTag>>();
                    let mut alloc = world.write_resource::<SimpleMarkerAllocator<HistTag>>();
                    let mut de = serde_json::Deserializer::from_str(&data);
                    let r = DeserializeComponents::<specs::error::Error, SimpleMarker<HistTag>>::deserialize(&mut (), &ents, &mut markers, &mut *alloc, &mut de);
                    if let Err(e) = r {
                        return Err(v("C14", "deserialize-error", format!("deserialising {} fresh markers failed: {}", n, e)));
                    }
                    let mut by_id: BTreeMap<u64, Entity> = BTreeMap::new();
                    for (e, m) in (&*ents, &markers).join() {
                        by_id.insert(m.id(), e);
                    }
                    let mut out = vec![];
                    for i in &ids {
                        match by_id.get(i) {
                            Some(e) => out.push(*e),
                            None => return Err(v("C15", "load-lost-record", format!("no entity carries the freshly loaded marker id {}", i))),
                        }
                    }
                    out
                };
                for (e, i) in created.iter().zip(ids.iter()) {
                    self.on_created(*e, false, false, "deserialisation (MarkerAllocator::retrieve_entity)")?;
                    self.marker_owner.insert(*i, *e);
                }
                self.note(|| format!("deserialize {:?}", created));
            }
            Op::LazyExec(steps) => {
                let body = self.resolve_exec(steps, 0);
                let k = self.kinds.clone();
                let l = self.log.clone();
                let b = body.clone();
                // both entry points share one queue: alternate between them
                if body.id % 2 == 0 {
                    self.w().read_resource::<LazyUpdate>().exec(move |w| run_body(w, &k, b, &l));
                } else {
                    self.w().read_resource::<LazyUpdate>().exec_mut(move |w| run_body(w, &k, b, &l));
                }
                self.note(|| format!("lazy_exec #{}", body.id));
                self.queue.push(QItem::Exec(body));
            }
        }
        self.check_state()
    }

    fn resolve_exec(&mut self, steps: &[ExecStep], depth: usize) -> RExec {
        let id = self.next_exec_id;
        self.next_exec_id += 1;
        let mut out = vec![];
        for s in steps {
            let r = match s {
                ExecStep::Observe(sels) => Some(RStep::Observe(
                    sels.iter().filter_map(|s| self.resolve(*s)).map(|h| self.handles[h].e).collect(),
                )),
                ExecStep::CreateAtomic => Some(RStep::CreateAtomic),
                ExecStep::CreateNow => Some(RStep::CreateNow),
                ExecStep::CreateNowWith(s, p) => self.slot(*s).map(|a| RStep::CreateNowWith(a, *p)),
                ExecStep::OtherWorld => Some(RStep::OtherWorld),
                ExecStep::LazyCreateWith(s, p) => self.slot(*s).map(|a| RStep::LazyCreateWith(a, *p)),
                ExecStep::DeleteNow(sel) => self.resolve(*sel).map(|h| RStep::DeleteNow(self.handles[h].e)),
                ExecStep::DeleteAtomic(sel) => self.resolve(*sel).map(|h| RStep::DeleteAtomic(self.handles[h].e)),
                ExecStep::InsertNow(s, sel, p) => match (self.slot(*s), self.resolve(*sel)) {
                    (Some(a), Some(h)) => Some(RStep::InsertNow(a, self.handles[h].e, *p)),
                    _ => None,
                },
                ExecStep::Nested(inner) => {
                    if depth < 3 {
                        Some(RStep::Nested(self.resolve_exec(inner, depth + 1)))
                    } else {
                        None
                    }
                }
                ExecStep::LazyInsert(s, sel, p) => match (self.slot(*s), self.resolve(*sel)) {
                    (Some(a), Some(h)) => Some(RStep::LazyInsert(a, self.handles[h].e, *p)),
                    _ => None,
                },
                ExecStep::MaintainInside => {
                    self.facts.maintain_inside_closure += 1;
                    Some(RStep::MaintainInside)
                }
                ExecStep::Chain(n) => {
                    if depth == 0 {
                        let ids: Vec<u32> = (0..*n)
                            .map(|_| {
                                let i = self.next_exec_id;
                                self.next_exec_id += 1;
                                i
                            })
                            .collect();
                        let mut cur: Option<RExec> = None;
                        for id in ids.into_iter().rev() {
                            let steps = match cur.take() {
                                Some(c) => vec![RStep::Nested(c)],
                                None => vec![],
                            };
                            cur = Some(RExec { id, steps });
                        }
                        if *n > 64 {
                            self.facts.lazy_chain_over_64 += 1;
                        }
                        cur.map(RStep::Nested)
                    } else {
                        None
                    }
                }
                ExecStep::LazyRemove(s, sel) => match (self.slot(*s), self.resolve(*sel)) {
                    (Some(a), Some(h)) => Some(RStep::LazyRemove(a, self.handles[h].e)),
                    _ => None,
                },
            };
            if let Some(r) = r {
                let last = matches!(r, RStep::MaintainInside);
                out.push(r);
                if last {
                    break;
                }
            }
        }
        RExec { id, steps: out }
    }

    fn drain_events(&mut self, slot: usize) -> Vec<specs::storage::ComponentEvent> {
        let kind = self.kinds[slot];
        let via_mut = self.drain_mut;
        let world = self.world.as_ref().unwrap();
        match self.readers[slot].as_mut() {
            Some(r) => with_kind!(kind, st_events(world, r, via_mut)),
            None => vec![],
        }
    }

    /// An access through a dead handle is no access: a tracked storage must stay silent.
    fn no_events_for_refused_access(&mut self, slot: usize, e: Entity, what: &str) -> Verdict {
        if self.transcript.is_some() || !self.kinds[slot].tracked() {
            return Ok(());
        }
        let evs = self.drain_events(slot);
        ensure!("C12", "event-for-refused-access", evs.is_empty(),
            "{} through the dead handle {:?} on {:?} was refused but produced events {:?}", what, e, self.kinds[slot], evs);
        Ok(())
    }

    fn stale_access(&mut self, slot: usize, e: Entity) {
        self.facts.stale_access += 1;
        if self.comps[slot].contains_key(&e.id()) {
            self.facts.stale_access_occupied_with_comp += 1;
        }
    }

    fn check_delete_result(
        &self,
        what: &str,
        e: Entity,
        expect_ok: bool,
        r: Result<(), Entity>,
    ) -> Verdict {
        match (expect_ok, r) {
            (true, Ok(())) => Ok(()),
            (false, Err(named)) => {
                ensure!("C02", "delete-error-entity", named == e, "{}({:?}) failed naming {:?}", what, e, named);
                Ok(())
            }
            (true, Err(_)) => Err(v("C02", "live-delete-refused", format!("{}({:?}) failed although the entity is alive", what, e))),
            (false, Ok(())) => Err(v("C02", "dead-delete-accepted", format!("{}({:?}) succeeded although the entity is dead", what, e))),
        }
    }

    /// Compares one index of one storage with the model.
    fn check_slot_index(&self, prop: &str, slot: usize, id: u32, ctx: &str) -> Verdict {
        let kind = self.kinds[slot];
        let m = self.comps[slot].get(&id).cloned();
        let real = match self.occupant.get(&id) {
            Some(&hi) => {
                let (g, c, chk) = with_kind!(kind, st_get(self.w(), self.handles[hi].e));
                if let Err(msg) = chk {
                    return Err(v("C08", "exposed-dead-value", format!("after {}: {}", ctx, msg)));
                }
                ensure!(prop, "get-contains-disagree", g.is_some() == c, "after {}: get and contains disagree for index {} in {:?}", ctx, id, kind);
                g
            }
            None => None,
        };
        ensure!(prop, "occupant-changed", real == m,
            "after {}: index {} of {:?} now holds {:?}, before the operation it held {:?}", ctx, id, kind, real, m);
        let in_mask = with_kind!(kind, st_mask(self.w())).contains(&id);
        ensure!(prop, "mask-changed", in_mask == m.is_some(),
            "after {}: index {} of {:?} is in the mask = {}, expected {}", ctx, id, kind, in_mask, m.is_some());
        Ok(())
    }

    /// Model of the first half of maintain: deferred creations become merged, requested deletions take
    /// effect (with their component purge).
    fn model_merge(&mut self) {
        let pend: Vec<usize> = (0..self.handles.len())
            .filter(|i| matches!(self.handles[*i].state, HState::Live { pending: true, .. }))
            .collect();
        for h in self.handles.iter_mut() {
            if let HState::Live { pending, .. } = h.state {
                h.state = HState::Live { merged: true, pending };
            }
        }
        for hi in pend {
            self.kill(hi);
        }
        self.dead_since_maintain.clear();
    }

    fn maintain(&mut self) -> Verdict {
        ensure!("C09", "ran-before-maintain", self.log.lock().unwrap().is_empty(),
            "lazy actions ran before maintain: {:?}", self.log.lock().unwrap());
        self.wm().maintain();
        self.facts.maintains += 1;
        // model: merge
        self.model_merge();
        // model: lazy queue
        let log: Vec<LogEntry> = std::mem::take(&mut *self.log.lock().unwrap());
        let mut cur = 0usize;
        let mut queue: std::collections::VecDeque<QItem> = std::mem::take(&mut self.queue).into();
        self.facts.max_queue_in_one_maintain = self.facts.max_queue_in_one_maintain.max(queue.len() as u32);
        let mut ran = 0u32;
        let mut dead_targets: Vec<(usize, Entity)> = vec![];
        while let Some(item) = queue.pop_front() {
            ran += 1;
            match item {
                QItem::Insert { slot, e, ident } | QItem::InsertLogged { slot, e, ident } => {
                    self.note_lazy_target(e);
                    if self.is_alive_entity(e) {
                        self.comps[slot].insert(e.id(), ident);
                    } else {
                        dead_targets.push((slot, e));
                    }
                }
                QItem::Remove { slot, e } => {
                    self.note_lazy_target(e);
                    if self.is_alive_entity(e) {
                        self.comps[slot].remove(&e.id());
                    } else {
                        dead_targets.push((slot, e));
                    }
                }
                QItem::Exec(body) => {
                    let next = log.get(cur).cloned();
                    ensure!("C09", "exec-order", next == Some(LogEntry::Ran(body.id)),
                        "expected queued closure #{} to run next, the execution log has {:?} (log position {})", body.id, next, cur);
                    cur += 1;
                    for step in body.steps {
                        match step {
                            RStep::Observe(hs) => {
                                let exp: Vec<(bool, Vec<bool>)> = hs
                                    .iter()
                                    .map(|h| {
                                        let a = self.is_alive_entity(*h);
                                        (a, self.comps.iter().map(|c| a && c.contains_key(&h.id())).collect())
                                    })
                                    .collect();
                                let got = log.get(cur).cloned();
                                let exp_masks: Vec<Vec<u32>> = self.comps.iter().map(|c| c.keys().cloned().collect()).collect();
                                ensure!("C09", "closure-observation", got == Some(LogEntry::Observed(exp.clone(), exp_masks.clone())),
                                    "closure #{} observed {:?} for handles {:?}; with deferred creations merged and deferred deletions purged it must see {:?} and storage masks {:?}", body.id, got, hs, exp, exp_masks);
                                cur += 1;
                            }
                            RStep::CreateAtomic | RStep::CreateNow => {
                                let merged = matches!(step, RStep::CreateNow);
                                match log.get(cur) {
                                    Some(LogEntry::Created(e)) => {
                                        self.on_created(*e, merged, false, if merged { "World::create_entity (in closure)" } else { "Entities::create (in closure)" })?;
                                    }
                                    other => return Err(v("C09", "log-shape", format!("closure #{}: expected a creation record, got {:?}", body.id, other))),
                                }
                                cur += 1;
                            }
                            RStep::CreateNowWith(slot, _) => {
                                match log.get(cur) {
                                    Some(LogEntry::CreatedWith(e, id)) => {
                                        self.on_created(*e, true, false, "World::create_entity (in closure)")?;
                                        self.comps[slot].insert(e.id(), *id);
                                    }
                                    other => return Err(v("C09", "log-shape", format!("closure #{}: expected a creation record, got {:?}", body.id, other))),
                                }
                                cur += 1;
                            }
                            RStep::LazyCreateWith(slot, _) => {
                                match log.get(cur) {
                                    Some(LogEntry::CreatedWith(e, id)) => {
                                        self.on_created(*e, false, false, "LazyUpdate::create_entity (in closure)")?;
                                        queue.push_back(QItem::InsertLogged { slot, e: *e, ident: *id });
                                    }
                                    other => return Err(v("C09", "log-shape", format!("closure #{}: expected a creation record, got {:?}", body.id, other))),
                                }
                                cur += 1;
                                self.facts.lazy_nested += 1;
                            }
                            RStep::OtherWorld => {
                                let got = log.get(cur).cloned();
                                ensure!("C09", "other-world-maintain", got == Some(LogEntry::OtherWorldRan(true, true)),
                                    "closure #{}: an unrelated world created, filled and maintained inside the closure reports (queued action ran exactly once, deferred entity merged) = {:?}; what happens in one world must not depend on another world being in the middle of its maintain", body.id, got);
                                cur += 1;
                            }
                            RStep::DeleteNow(h) => {
                                let exp = self.is_alive_entity(h);
                                let got = log.get(cur).cloned();
                                ensure!("C02", "closure-delete-result", got == Some(LogEntry::DelResult(exp)),
                                    "delete_entity({:?}) inside closure #{} gave {:?}, expected ok={}", h, body.id, got, exp);
                                cur += 1;
                                if exp {
                                    let hi = self.handle_index(h).unwrap();
                                    self.kill(hi);
                                }
                            }
                            RStep::DeleteAtomic(h) => {
                                let exp = self.is_alive_entity(h);
                                let got = log.get(cur).cloned();
                                ensure!("C02", "closure-delete-result", got == Some(LogEntry::DelResult(exp)),
                                    "Entities::delete({:?}) inside closure #{} gave {:?}, expected ok={}", h, body.id, got, exp);
                                cur += 1;
                                if exp {
                                    let hi = self.handle_index(h).unwrap();
                                    if let HState::Live { merged, .. } = self.handles[hi].state {
                                        self.handles[hi].state = HState::Live { merged, pending: true };
                                    }
                                }
                            }
                            RStep::InsertNow(slot, h, _) => {
                                let alive = self.is_alive_entity(h);
                                match log.get(cur) {
                                    Some(LogEntry::Inserted { ok, old, new }) => {
                                        let m = if alive { self.comps[slot].get(&h.id()).cloned() } else { None };
                                        ensure!("C05", "closure-insert", *ok == alive && *old == m,
                                            "insert({:?}) inside closure #{} gave ok={} old={:?}, expected ok={} old={:?}", h, body.id, ok, old, alive, m);
                                        if alive {
                                            self.comps[slot].insert(h.id(), *new);
                                        }
                                    }
                                    other => return Err(v("C09", "log-shape", format!("closure #{}: expected an insert record, got {:?}", body.id, other))),
                                }
                                cur += 1;
                            }
                            RStep::Nested(b) => {
                                self.facts.lazy_nested += 1;
                                queue.push_back(QItem::Exec(b));
                            }
                            RStep::LazyInsert(slot, h, _) => {
                                match log.get(cur) {
                                    Some(LogEntry::QueuedValue(ident)) => {
                                        queue.push_back(QItem::InsertLogged { slot, e: h, ident: *ident });
                                    }
                                    other => return Err(v("C09", "log-shape", format!("closure #{}: expected a queued-value record, got {:?}", body.id, other))),
                                }
                                cur += 1;
                                self.facts.lazy_nested += 1;
                            }
                            RStep::LazyRemove(slot, h) => {
                                queue.push_back(QItem::Remove { slot, e: h });
                                self.facts.lazy_nested += 1;
                            }
                            RStep::MaintainInside => {
                                // the nested maintain merges, purges, and then runs the rest of the queue
                                self.model_merge();
                            }
                        }
                    }
                }
            }
        }
        ensure!("C09", "extra-executions", cur == log.len(),
            "maintain ran more than was queued: unexpected log tail {:?}", &log[cur..]);
        self.facts.lazy_actions_run += ran;
        self.note(|| format!("maintain ran={}", ran));
        // a lazy insert / remove whose target was dead must not have touched the index's occupant
        for (slot, e) in dead_targets {
            self.check_slot_index("C03", slot, e.id(), "a lazy insert / remove whose target was dead")?;
        }
        Ok(())
    }

    fn note_lazy_target(&mut self, e: Entity) {
        if !self.is_alive_entity(e) {
            self.facts.lazy_dead_target += 1;
        } else if self.handles.iter().any(|h| h.e.id() == e.id() && h.e != e) {
            self.facts.lazy_reused_target += 1;
        }
    }

    /// Full comparison of the observable state with the model.
    pub fn check_state(&mut self) -> Verdict {
        // Several properties' oracles look at the same step; evaluate the groups separately so that
        // the violation of the property being checked is not hidden behind another property's.
        let mut found: Vec<Violation> = vec![];
        let mut soft: Vec<Violation> = vec![];
        for group in 0..4 {
            if let Err(v) = self.check_group(group) {
                // A dead handle that the world reports alive is C02's business, but the model's timeline
                // is unaffected by it, and what such a handle can then read or change is exactly what
                // C03 is about: under the C03 check the history goes on.
                let stale_alive = group == 1 && v.prop == "C02" && v.signature.starts_with("dead-reported-alive") && crate::engine::focus() == "C03";
                if group == 0 || group == 2 || stale_alive {
                    soft.push(v);
                } else {
                    found.push(v);
                }
            }
        }
        // Ledger / lazy-log oracles (group 0) and the allocator's self-check (group 2, internal state, an
        // early warning) do not depend on the model staying in step. When they
        // belong to another property than the one being checked the history goes on (the defect may
        // show up later in this property's own terms); they are reported at the end otherwise.
        let focus = crate::engine::focus();
        for v in soft {
            if v.prop == focus || focus.is_empty() {
                found.insert(0, v);
            } else if self.deferred_other.is_none() {
                self.deferred_other = Some(v);
            }
        }
        if found.is_empty() && self.transcript.is_some() {
            self.snapshot();
        }
        crate::engine::pick_violation(found)
    }

    /// group 0: ledger + lazy log, 1: entity timeline, 2: allocator self-check, 3: storages
    fn check_group(&mut self, group: u8) -> Verdict {
        if group == 0 {
        // C08: ledger
        let errs = with_ledger(|l| l.take_errors());
        if let Some(e) = errs.first() {
            return Err(v("C08", "ledger", e.clone()));
        }
        // C08: a deletion that took effect destroys the entity's components right then
        for (serial, idx, kind) in std::mem::take(&mut self.expect_destroyed) {
            if serial != 0 {
                let st = with_ledger(|l| l.state_of(serial));
                ensure!("C08", "not-destroyed-on-deletion", st != Some(St::Live),
                    "the {:?} component (serial {}) of the entity at index {} is still alive after that entity's deletion took effect", kind, serial, idx);
            }
        }
        // C08: a value that is still attached to a live entity has not been destroyed (values are destroyed
        // by the deletion of their entity, clear or the end of the world - not by anything else)
        // (evaluated by the C08 check only: for the other properties it could merely add a deferred note)
        let c08_focus = crate::engine::focus() == "C08";
        for (slot, kind) in self.kinds.iter().enumerate() {
            if kind.zst() || !c08_focus {
                continue;
            }
            for (idx, ident) in &self.comps[slot] {
                let st = with_ledger(|l| l.state_of(ident.0));
                ensure!("C08", "destroyed-while-attached", matches!(st, Some(St::Live) | Some(St::Plain)),
                    "the {:?} component (serial {}) of the live entity at index {} has been destroyed ({:?}) although nothing deleted, removed or overwrote it", kind, ident.0, idx, st);
            }
        }
        ensure!("C09", "ran-before-maintain", self.log.lock().unwrap().is_empty(),
            "lazy actions ran outside maintain: {:?}", self.log.lock().unwrap());
        return Ok(());
        }
        let world = self.world.as_ref().unwrap();
        let ents = world.entities();
        if group == 1 {
        // C02: aliveness of every handle ever returned
        for h in &self.handles {
            let exp = matches!(h.state, HState::Live { .. });
            let got = ents.is_alive(h.e);
            ensure!("C02", if exp { "live-reported-dead" } else { "dead-reported-alive" }, got == exp,
                "Entities::is_alive({:?}) = {} but the timeline says {:?}", h.e, got, h.state);
            if exp {
                // lookup by index names the current occupant
                ensure!("C02", "entity-by-index", ents.entity(h.e.id()) == h.e,
                    "Entities::entity({}) = {:?} but the live entity on that index is {:?}", h.e.id(), ents.entity(h.e.id()), h.e);
            }
            match h.state {
                HState::Dead => {
                    ensure!("C02", "dead-reported-alive-merged", !world.is_alive(h.e), "World::is_alive({:?}) is true for a dead entity", h.e);
                }
                HState::Live { merged: true, .. } => {
                    ensure!("C02", "merged-live-reported-dead", world.is_alive(h.e), "World::is_alive({:?}) is false for a merged live entity", h.e);
                }
                _ => {}
            }
        }
        // C02 / C01: iteration
        let joined: Vec<Entity> = (&*ents).join().collect();
        let mut ids = HashSet::new();
        for e in &joined {
            ensure!("C01", "join-duplicate-index", ids.insert(e.id()), "(&entities).join() yields index {} twice: {:?}", e.id(), joined);
        }
        let expect: Vec<Entity> = self.occupant.values().map(|h| self.handles[*h].e).collect();
        ensure!("C02", "join-mismatch", joined == expect,
            "(&entities).join() yields {:?}, the entities currently alive are {:?}", joined, expect);
        // the lending and the parallel iteration must agree with it
        let mut lent: Vec<Entity> = vec![];
        {
            let mut j = (&*ents).lend_join();
            while let Some(e) = j.next() {
                lent.push(e);
            }
        }
        ensure!("C02", "lend-join-mismatch", lent == expect,
            "(&entities).lend_join() yields {:?}, the entities currently alive are {:?}", lent, expect);
        if self.handles.len() % 4 == 0 {
            use specs::rayon::iter::ParallelIterator;
            let mut par: Vec<Entity> = setup_pool().install(|| (&*ents).par_join().collect());
            par.sort();
            let mut want = expect.clone();
            want.sort();
            ensure!("C02", "par-join-mismatch", par == want,
                "(&entities).par_join() yields {:?}, the entities currently alive are {:?}", par, want);
        }
        return Ok(());
        }
        if group == 2 {
        // H3
        for (kind, msg) in ents.verif_check() {
            let (p, s) = if kind == "leak" { ("C17", "allocator-leak") } else { ("C01", "allocator-overlap") };
            return Err(v(p, s, format!("allocator self-check: {}", msg)));
        }
        return Ok(());
        }
        drop(ents);
        // storages
        for (slot, kind) in self.kinds.iter().enumerate() {
            let mask = with_kind!(*kind, st_mask(world));
            let keys: Vec<u32> = self.comps[slot].keys().cloned().collect();
            if mask != keys {
                let extra: Vec<u32> = mask.iter().filter(|i| !keys.contains(i)).cloned().collect();
                let missing: Vec<u32> = keys.iter().filter(|i| !mask.contains(i)).cloned().collect();
                return Err(v("C05", if !extra.is_empty() { "component-not-purged-or-unexpected" } else { "component-lost" },
                    format!("storage {:?}: mask has unexpected indices {:?} and lacks {:?} (model keys {:?})", kind, extra, missing, keys)));
            }
            let (count, empty) = with_kind!(*kind, st_count(world));
            ensure!("C05", "count", count == keys.len() && empty == keys.is_empty(), "storage {:?}: count {} / is_empty {} but {} members", kind, count, empty, keys.len());
            if let Some(view) = with_kind!(*kind, st_dense_view(world)) {
                let mut got = vec![];
                for r in view {
                    match r {
                        Ok(id) => got.push(id),
                        Err(m) => return Err(v("C08", "exposed-dead-value", format!("storage {:?}: dense slice element: {}", kind, m))),
                    }
                }
                got.sort();
                let mut want: Vec<Ident> = self.comps[slot].values().cloned().collect();
                want.sort();
                ensure!("C05", "dense-slice-not-purged", got == want,
                    "storage {:?}: as_slice() holds {:?}, the components of live entities are {:?}", kind, got, want);
            }
            for h in &self.handles {
                let (g, c, chk) = with_kind!(*kind, st_get(world, h.e));
                if let Err(msg) = chk {
                    return Err(v("C08", "exposed-dead-value", msg));
                }
                let gg = with_kind!(*kind, st_get_generic(world, h.e));
                ensure!(if matches!(h.state, HState::Dead) { "C03" } else { "C05" }, "generic-get", gg == g,
                    "GenericReadStorage::get({:?}) in {:?} = {:?} but Storage::get = {:?}", h.e, kind, gg, g);
                match h.state {
                    HState::Dead => {
                        ensure!("C03", "stale-read", g.is_none() && !c,
                            "get/contains through the dead handle {:?} in {:?} returned {:?}/{}", h.e, kind, g, c);
                    }
                    HState::Live { .. } => {
                        let m = self.comps[slot].get(&h.e.id()).cloned();
                        ensure!("C05", "component-changed", g == m && c == m.is_some(),
                            "storage {:?}: {:?} holds {:?} (contains={}), the model says {:?}", kind, h.e, g, c, m);
                    }
                }
            }
        }
        Ok(())
    }

    /// C20: everything observable that could depend on hashing or addresses.
    fn snapshot(&mut self) {
        let world = self.world.as_ref().unwrap();
        let mut line = String::new();
        {
            let ents = world.entities();
            let joined: Vec<Entity> = (&*ents).join().collect();
            line.push_str(&format!("ents={:?};", joined));
        }
        for kind in self.kinds.iter() {
            let items = with_kind!(*kind, st_join_items(world));
            line.push_str(&format!("{:?}={:?};", kind, items));
        }
        for (k, kind) in self.kinds.iter().enumerate() {
            if let Some(r) = self.readers[k].as_mut() {
                let evs = with_kind!(*kind, st_events(world, r, false));
                line.push_str(&format!("ev{:?}={:?};", kind, evs));
            }
        }
        self.transcript.as_mut().unwrap().push(line);
    }

    /// Drops the world and checks the ledger (C08).
    pub fn teardown(&mut self) -> Verdict {
        self.facts.live_comps_at_teardown = self.comps.iter().map(|c| c.len() as u32).sum();
        let world = self.world.take();
        drop(world);
        // closures still queued own values; they are released with the queue
        self.log.lock().unwrap().clear();
        let (errs, live, zc, zd) = with_ledger(|l| {
            (l.take_errors(), l.live_serials(), l.zst_constructed, l.zst_by_caller + l.zst_by_library)
        });
        if let Some(e) = errs.first() {
            return Err(v("C08", "ledger", e.clone()));
        }
        ensure!("C08", "leak", live.is_empty(), "values with serials {:?} were neither returned nor destroyed when the world was dropped", live);
        ensure!("C08", "zst-leak", zc == zd, "{} zero-sized components constructed but {} destroyed/returned", zc, zd);
        Ok(())
    }
}

/// Runs a whole history; returns the facts for the non-triviality rules.
pub fn run_history(h: &History, transcript: bool) -> Result<(Facts, Option<Vec<String>>), Violation> {
    let mut it = Interp::new(&h.storages, transcript);
    it.drain_mut = h.ops.len() % 2 == 1;
    it.check_state()?;
    for op in &h.ops {
        it.step(op)?;
    }
    it.teardown()?;
    if let Some(v) = it.deferred_other.take() {
        return Err(v);
    }
    Ok((it.facts.clone(), it.transcript.take()))
}

// ---------------------------------------------------------------------------
// generators

fn sel() -> impl Strategy<Value = Sel> {
    prop_oneof![
        3 => any::<u16>().prop_map(Sel::Any),
        3 => any::<u16>().prop_map(Sel::Live),
        3 => any::<u16>().prop_map(Sel::Dead),
    ]
}

fn comps() -> impl Strategy<Value = Vec<(u8, u32)>> {
    proptest::collection::vec((0u8..8, 1u32..1000), 0..4)
}

fn exec_steps(depth: u32) -> BoxedStrategy<Vec<ExecStep>> {
    let leaf = prop_oneof![
        3 => proptest::collection::vec(sel(), 1..4).prop_map(ExecStep::Observe),
        1 => Just(ExecStep::CreateAtomic),
        1 => Just(ExecStep::CreateNow),
        2 => (0u8..8, 1u32..1000).prop_map(|(s, p)| ExecStep::CreateNowWith(s, p)),
        1 => Just(ExecStep::OtherWorld),
        2 => (0u8..8, 1u32..1000).prop_map(|(s, p)| ExecStep::LazyCreateWith(s, p)),
        1 => sel().prop_map(ExecStep::DeleteNow),
        1 => sel().prop_map(ExecStep::DeleteAtomic),
        2 => (0u8..8, sel(), 1u32..1000).prop_map(|(s, h, p)| ExecStep::InsertNow(s, h, p)),
        1 => (0u8..8, sel(), 1u32..1000).prop_map(|(s, h, p)| ExecStep::LazyInsert(s, h, p)),
        1 => (0u8..8, sel()).prop_map(|(s, h)| ExecStep::LazyRemove(s, h)),
        1 => prop_oneof![1u8..8, 60u8..140].prop_map(ExecStep::Chain),
        1 => Just(ExecStep::MaintainInside),
    ];
    if depth == 0 {
        proptest::collection::vec(leaf, 0..4).boxed()
    } else {
        let inner = exec_steps(depth - 1);
        proptest::collection::vec(
            prop_oneof![
                5 => leaf,
                2 => inner.prop_map(ExecStep::Nested),
            ],
            0..4,
        )
        .boxed()
    }
}

#[derive(Clone, Copy, Debug)]
pub struct Profile {
    pub create: u32,
    pub delete: u32,
    pub maintain: u32,
    pub storage: u32,
    pub stale: u32,
    pub lazy: u32,
    pub restrict: u32,
    pub emission: u32,
    pub max_ops: usize,
    pub min_storages: usize,
    pub max_storages: usize,
}

pub const ALLOC_PROFILE: Profile = Profile { create: 10, delete: 10, maintain: 3, storage: 2, stale: 1, lazy: 1, restrict: 0, emission: 1, max_ops: 40, min_storages: 1, max_storages: 3 };
pub const STALE_PROFILE: Profile = Profile { create: 6, delete: 5, maintain: 2, storage: 4, stale: 10, lazy: 1, restrict: 0, emission: 1, max_ops: 40, min_storages: 2, max_storages: 5 };
pub const PURGE_PROFILE: Profile = Profile { create: 8, delete: 7, maintain: 2, storage: 8, stale: 1, lazy: 1, restrict: 0, emission: 5, max_ops: 60, min_storages: 3, max_storages: 8 };
pub const LAZY_PROFILE: Profile = Profile { create: 5, delete: 4, maintain: 4, storage: 3, stale: 1, lazy: 12, restrict: 0, emission: 1, max_ops: 40, min_storages: 2, max_storages: 4 };
pub const MIXED_PROFILE: Profile = Profile { create: 6, delete: 5, maintain: 2, storage: 8, stale: 3, lazy: 4, restrict: 0, emission: 2, max_ops: 40, min_storages: 2, max_storages: 6 };
pub const RESTRICT_PROFILE: Profile = Profile { create: 6, delete: 5, maintain: 2, storage: 6, stale: 2, lazy: 0, restrict: 10, emission: 2, max_ops: 40, min_storages: 2, max_storages: 5 };

pub fn op_strategy(p: Profile) -> BoxedStrategy<Op> {
    let create = prop_oneof![
        4 => (comps(), prop::bool::weighted(0.85)).prop_map(|(c, b)| Op::CreateNow { comps: c, built: b }),
        1 => (0u8..6).prop_map(Op::CreateIterNow),
        4 => Just(Op::CreateAtomic),
        1 => (0u8..6).prop_map(Op::CreateIterAtomic),
        2 => (comps(), prop::bool::weighted(0.7)).prop_map(|(c, b)| Op::BuildEntity { comps: c, built: b }),
        2 => comps().prop_map(|c| Op::LazyCreate { comps: c }),
        1 => (0u8..4).prop_map(Op::Deserialize),
        1 => any::<u8>().prop_map(Op::Retrieve),
    ];
    let emission = (0u8..8, any::<bool>()).prop_map(|(s, b)| Op::SetEmission(s, b));
    let delete = prop_oneof![
        5 => sel().prop_map(Op::DeleteNow),
        4 => proptest::collection::vec(sel(), 1..5).prop_map(Op::DeleteBatch),
        5 => sel().prop_map(Op::DeleteAtomic),
        2 => sel().prop_map(Op::DeleteTwice),
        1 => Just(Op::DeleteAll),
    ];
    let live_sel = || prop_oneof![4 => any::<u16>().prop_map(Sel::Live), 1 => any::<u16>().prop_map(Sel::Any)];
    let storage = prop_oneof![
        5 => (0u8..8, live_sel(), 1u32..1000).prop_map(|(s, h, p)| Op::Insert(s, h, p)),
        2 => (0u8..8, live_sel()).prop_map(|(s, h)| Op::Remove(s, h)),
        2 => (0u8..8, live_sel(), 1u32..1000).prop_map(|(s, h, p)| Op::GetMut(s, h, p)),
        2 => (0u8..8, live_sel(), entry_act()).prop_map(|(s, h, a)| Op::Entry(s, h, a)),
        1 => (0u8..8, live_sel(), 1u32..1000).prop_map(|(s, h, p)| Op::GetOrDefault(s, h, p)),
        1 => (0u8..8, live_sel(), 1u32..1000).prop_map(|(s, h, p)| Op::LendGet(s, h, p)),
        1 => (0u8..8, live_sel(), 1u32..1000).prop_map(|(s, h, p)| Op::RestrictOther(s, h, p)),
    ];
    let dead_sel = || any::<u16>().prop_map(Sel::Dead);
    let stale = prop_oneof![
        2 => (0u8..8, dead_sel(), 1u32..1000).prop_map(|(s, h, p)| Op::Insert(s, h, p)),
        2 => (0u8..8, dead_sel()).prop_map(|(s, h)| Op::Remove(s, h)),
        2 => (0u8..8, dead_sel(), 1u32..1000).prop_map(|(s, h, p)| Op::GetMut(s, h, p)),
        2 => (0u8..8, dead_sel(), entry_act()).prop_map(|(s, h, a)| Op::Entry(s, h, a)),
        2 => (0u8..8, dead_sel(), 1u32..1000).prop_map(|(s, h, p)| Op::GetOrDefault(s, h, p)),
        2 => (0u8..8, dead_sel(), 1u32..1000).prop_map(|(s, h, p)| Op::LendGet(s, h, p)),
        2 => (0u8..8, dead_sel(), 1u32..1000).prop_map(|(s, h, p)| Op::RestrictOther(s, h, p)),
        1 => (0u8..8, dead_sel(), 1u32..1000).prop_map(|(s, h, p)| Op::LazyInsert(s, h, p)),
        1 => (0u8..8, dead_sel()).prop_map(|(s, h)| Op::LazyRemove(s, h)),
        1 => dead_sel().prop_map(Op::DeleteNow),
        1 => dead_sel().prop_map(Op::DeleteAtomic),
    ];
    let lazy = prop_oneof![
        3 => (0u8..8, sel(), 1u32..1000).prop_map(|(s, h, p)| Op::LazyInsert(s, h, p)),
        1 => (0u8..8, proptest::collection::vec((sel(), 1u32..1000), 0..4)).prop_map(|(s, v)| Op::LazyInsertAll(s, v)),
        2 => (0u8..8, sel()).prop_map(|(s, h)| Op::LazyRemove(s, h)),
        4 => exec_steps(2).prop_map(Op::LazyExec),
        1 => comps().prop_map(|c| Op::LazyCreate { comps: c }),
    ];
    let restrict = (0u8..8, sel(), 1u32..1000).prop_map(|(s, h, p)| Op::RestrictOther(s, h, p));
    prop_oneof![
        p.create => create,
        p.delete => delete,
        p.maintain => Just(Op::Maintain),
        p.storage => storage,
        p.stale => stale,
        p.lazy => lazy,
        p.restrict => restrict,
        p.emission => emission,
    ]
    .boxed()
}

fn entry_act() -> impl Strategy<Value = EntryAct> {
    prop_oneof![
        (1u32..1000).prop_map(EntryAct::OrInsert),
        (1u32..1000).prop_map(EntryAct::Replace),
        Just(EntryAct::Remove),
        (1u32..1000).prop_map(EntryAct::GetMut),
    ]
}

pub fn storages_strategy(min: usize, max: usize) -> impl Strategy<Value = Vec<(Kind, u8)>> {
    (proptest::sample::subsequence(ALL_KINDS.to_vec(), min..=max), proptest::collection::vec((0u8..9, prop::bool::weighted(0.3)).prop_map(|(p, off)| p | if off { 0x80 } else { 0 }), ALL_KINDS.len()), any::<u64>()).prop_map(
        |(kinds, paths, rot)| {
            // rotate so that the order of registration varies too
            let n = kinds.len().max(1);
            let r = (rot as usize) % n;
            kinds
                .iter()
                .cycle()
                .skip(r)
                .take(kinds.len())
                .zip(paths)
                .map(|(k, p)| (*k, p))
                .collect()
        },
    )
}

pub fn history_strategy(p: Profile, max_ops: usize) -> impl Strategy<Value = History> {
    (
        storages_strategy(p.min_storages, p.max_storages),
        proptest::collection::vec(op_strategy(p), 0..=max_ops),
    )
        .prop_map(|(storages, ops)| History { storages, ops })
}
