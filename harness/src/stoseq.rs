//! Single-storage operation sequences over one storage kind: differential
//! check against a `BTreeMap` (C04), value ledger (C08), event stream of the
//! change-tracking wrappers (C12) and destructor-panic fault injection (C19).

use std::{
    collections::{BTreeMap, BTreeSet},
    panic::{catch_unwind, AssertUnwindSafe},
};

use proptest::prelude::*;
use serde::{Deserialize, Serialize};
use specs::{
    hibitset::BitSetLike,
    prelude::*,
    storage::{AccessMut, ComponentEvent, GenericWriteStorage, StorageEntry},
};

use crate::{
    engine::{Verdict, Violation},
    ensure, with_kind,
    zoo::{self, caller_drop, with_ledger, CAux, Kind, ZooComp, ALL_KINDS},
};

pub type Ident = (u64, u32);

// ---------------------------------------------------------------------------
// case

#[derive(Clone, Debug, Serialize, Deserialize, Hash, PartialEq, Eq)]
pub enum Pool {
    Dense(u8),
    Sparse { total: u16, picks: Vec<u16> },
    Layered { picks: Vec<u8> },
}

pub const ATOMS: [u32; 22] = [
    0, 1, 62, 63, 64, 65, 127, 128, 4094, 4095, 4096, 4097, 8191, 8192, 262142, 262143, 262144, 262145, 300000, 524286,
    524287, 524288,
];

#[derive(Clone, Copy, Debug, Serialize, Deserialize, Hash, PartialEq, Eq)]
pub enum DelHow {
    Now,
    BatchWithNext,
    FailingBatch,
    AtomicMaintain,
}

#[derive(Clone, Debug, Serialize, Deserialize, Hash, PartialEq, Eq)]
pub enum SOp {
    Insert(u16, u32),
    Remove(u16),
    GenericRemove(u16),
    Probe(u16),
    GetMut(u16, u32, bool),
    OrInsert(u16, u32, bool),
    OrInsertWith(u16, u32, bool),
    Replace(u16, u32),
    OccGet(u16),
    OccGetMut(u16, u32, bool),
    OccInsert(u16, u32),
    OccRemove(u16),
    OccIntoMut(u16, u32, bool),
    VacInsert(u16, u32, bool),
    EntriesJoin(Vec<u8>, u32),
    GetOrDefault(u16, u32, bool),
    Drain(Option<u8>),
    /// drain joined with a filter bit set (only part of the members is visited), via join() or lend_join()
    DrainFiltered { take: Option<u8>, lend: bool, filter: Vec<bool> },
    /// get_other / get_other_mut through the n-th item of a restricted join
    RestrictProbe(u16, u16, u32),
    /// entity created through the shared entities resource (not merged until a later maintain)
    CreateAtomic,
    Clear,
    JoinRead,
    JoinMut(Vec<bool>, u32),
    LendJoinMut(Vec<bool>, u32, Option<u8>),
    MaybeJoinMut(Vec<bool>, u32),
    RestrictMut(Vec<bool>, u32, bool),
    SliceWrite(u16, u32),
    DeleteEntity(u16, DelHow),
    DeleteAll,
    CreateEntity,
    LazyInsertMaintain(u16, u32),
    SetEmission(bool),
    DropWorld,
}

#[derive(Clone, Debug, Serialize, Deserialize, Hash, PartialEq, Eq)]
pub struct SeqCase {
    pub kind: Kind,
    pub pool: Pool,
    pub ops: Vec<SOp>,
}

// ---------------------------------------------------------------------------
// capabilities that only some storage kinds have

pub enum SliceView {
    /// (index-addressed) per slot: Some(ident) if readable as a value
    Indexed { len: usize, at: Vec<(usize, Result<Ident, String>, bool)> },
    Dense(Vec<Result<Ident, String>>),
}

pub trait Caps: ZooComp {
    /// `probe` = indices of interest for index-addressed slices
    fn slice_view(_st: &ReadStorage<Self>, _occupied: &BTreeSet<u32>, _probe: &[u32]) -> Option<SliceView> {
        None
    }
    fn slice_write(_st: &mut WriteStorage<Self>, _index: u32, _nth: usize, _payload: u32) -> Option<Ident> {
        None
    }
    /// `(&bitset, &mut storage).join()`, calling `f(index, ident, &mut dyn FnMut(u32))`
    fn join_mut(_st: &mut WriteStorage<Self>, _f: &mut dyn FnMut(u32, Ident) -> Option<u32>) -> bool {
        false
    }
    fn restrict_join_shared(_st: &mut WriteStorage<Self>, _f: &mut dyn FnMut(Ident) -> Option<u32>) -> bool {
        false
    }
    fn register_reader(_st: &mut WriteStorage<Self>) -> Option<ReaderId<ComponentEvent>> {
        None
    }
    fn read_events(_st: &ReadStorage<Self>, _r: &mut ReaderId<ComponentEvent>) -> Vec<ComponentEvent> {
        vec![]
    }
    /// Same through `channel_mut()` (exclusive access to the channel).
    fn read_events_mut(_st: &mut WriteStorage<Self>, _r: &mut ReaderId<ComponentEvent>) -> Vec<ComponentEvent> {
        vec![]
    }
    fn set_emission(_st: &mut WriteStorage<Self>, _on: bool) -> bool {
        false
    }
}

macro_rules! caps_join_mut {
    () => {
        fn join_mut(st: &mut WriteStorage<Self>, f: &mut dyn FnMut(u32, Ident) -> Option<u32>) -> bool {
            let ents = st.fetched_entities() as *const specs::world::EntitiesRes;
            // SAFETY: the entities resource outlives the storage borrow; it is only read.
            let ents: &specs::world::EntitiesRes = unsafe { &*ents };
            for (e, mut c) in (ents, &mut *st).join() {
                let id = c.ident();
                if let Some(p) = f(e.id(), id) {
                    c.access_mut().set_payload(p);
                }
            }
            true
        }
        fn restrict_join_shared(st: &mut WriteStorage<Self>, f: &mut dyn FnMut(Ident) -> Option<u32>) -> bool {
            let mut r = st.restrict_mut();
            for mut item in (&mut r).join() {
                let id = item.get().ident();
                if let Some(p) = f(id) {
                    item.get_mut().access_mut().set_payload(p);
                }
            }
            true
        }
    };
}

macro_rules! caps_tracked {
    () => {
        fn register_reader(st: &mut WriteStorage<Self>) -> Option<ReaderId<ComponentEvent>> {
            Some(st.register_reader())
        }
        fn read_events(st: &ReadStorage<Self>, r: &mut ReaderId<ComponentEvent>) -> Vec<ComponentEvent> {
            st.channel().read(r).cloned().collect()
        }
        fn read_events_mut(st: &mut WriteStorage<Self>, r: &mut ReaderId<ComponentEvent>) -> Vec<ComponentEvent> {
            st.channel_mut().read(r).cloned().collect()
        }
        #[cfg(feature = "sec")]
        fn set_emission(st: &mut WriteStorage<Self>, on: bool) -> bool {
            st.set_event_emission(on);
            true
        }
    };
}

impl Caps for zoo::CVec {
    caps_join_mut!();
    fn slice_view(st: &ReadStorage<Self>, occupied: &BTreeSet<u32>, _probe: &[u32]) -> Option<SliceView> {
        let s = st.as_slice();
        let at = occupied
            .iter()
            .map(|i| {
                let i = *i as usize;
                if i < s.len() {
                    // SAFETY: the model says index i is occupied, so the slot must be initialised;
                    // the canary check below detects garbage.
                    let c = unsafe { s[i].assume_init_ref() };
                    (i, c.check().map(|_| c.ident()), true)
                } else {
                    (i, Err(format!("slice of length {} does not cover occupied index {}", s.len(), i)), true)
                }
            })
            .collect();
        Some(SliceView::Indexed { len: s.len(), at })
    }
    fn slice_write(st: &mut WriteStorage<Self>, index: u32, _nth: usize, payload: u32) -> Option<Ident> {
        let s = st.as_mut_slice();
        // SAFETY: only called for occupied indices.
        let c = unsafe { s[index as usize].assume_init_mut() };
        c.set_payload(payload);
        Some(c.ident())
    }
}

impl Caps for zoo::CDefault {
    caps_join_mut!();
    fn slice_view(st: &ReadStorage<Self>, occupied: &BTreeSet<u32>, probe: &[u32]) -> Option<SliceView> {
        let s = st.as_slice();
        let mut idx: BTreeSet<usize> = occupied.iter().map(|i| *i as usize).collect();
        if s.len() <= 20_000 {
            idx.extend(0..s.len());
        } else {
            for p in probe {
                for d in 0..3usize {
                    idx.insert((*p as usize).saturating_sub(d));
                    idx.insert(*p as usize + d);
                }
            }
            idx.insert(s.len().saturating_sub(1));
        }
        let at = idx
            .into_iter()
            .filter(|i| *i < s.len() || occupied.contains(&(*i as u32)))
            .map(|i| {
                if i < s.len() {
                    (i, s[i].check().map(|_| s[i].ident()), occupied.contains(&(i as u32)))
                } else {
                    (i, Err(format!("slice of length {} does not cover occupied index {}", s.len(), i)), true)
                }
            })
            .collect();
        Some(SliceView::Indexed { len: s.len(), at })
    }
    fn slice_write(st: &mut WriteStorage<Self>, index: u32, _nth: usize, payload: u32) -> Option<Ident> {
        let s = st.as_mut_slice();
        s[index as usize].set_payload(payload);
        Some(s[index as usize].ident())
    }
}

impl Caps for zoo::CPlainDefault {
    caps_join_mut!();
    fn slice_view(st: &ReadStorage<Self>, occupied: &BTreeSet<u32>, probe: &[u32]) -> Option<SliceView> {
        let s = st.as_slice();
        let mut idx: BTreeSet<usize> = occupied.iter().map(|i| *i as usize).collect();
        if s.len() <= 20_000 {
            idx.extend(0..s.len());
        } else {
            for p in probe {
                for d in 0..3usize {
                    idx.insert((*p as usize).saturating_sub(d));
                    idx.insert(*p as usize + d);
                }
            }
            idx.insert(s.len().saturating_sub(1));
        }
        let at = idx
            .into_iter()
            .filter(|i| *i < s.len() || occupied.contains(&(*i as u32)))
            .map(|i| {
                if i < s.len() {
                    (i, s[i].check().map(|_| s[i].ident()), occupied.contains(&(i as u32)))
                } else {
                    (i, Err(format!("slice of length {} does not cover occupied index {}", s.len(), i)), true)
                }
            })
            .collect();
        Some(SliceView::Indexed { len: s.len(), at })
    }
    fn slice_write(st: &mut WriteStorage<Self>, index: u32, _nth: usize, payload: u32) -> Option<Ident> {
        let s = st.as_mut_slice();
        s[index as usize].set_payload(payload);
        Some(s[index as usize].ident())
    }
}

impl Caps for zoo::CDense {
    caps_join_mut!();
    fn slice_view(st: &ReadStorage<Self>, _occupied: &BTreeSet<u32>, _probe: &[u32]) -> Option<SliceView> {
        Some(SliceView::Dense(st.as_slice().iter().map(|c| c.check().map(|_| c.ident())).collect()))
    }
    fn slice_write(st: &mut WriteStorage<Self>, _index: u32, nth: usize, payload: u32) -> Option<Ident> {
        let s = st.as_mut_slice();
        if s.is_empty() {
            return None;
        }
        let k = nth % s.len();
        s[k].set_payload(payload);
        Some(s[k].ident())
    }
}

impl Caps for zoo::CPlainDense {
    caps_join_mut!();
    fn slice_view(st: &ReadStorage<Self>, _occupied: &BTreeSet<u32>, _probe: &[u32]) -> Option<SliceView> {
        Some(SliceView::Dense(st.as_slice().iter().map(|c| c.check().map(|_| c.ident())).collect()))
    }
    fn slice_write(st: &mut WriteStorage<Self>, _index: u32, nth: usize, payload: u32) -> Option<Ident> {
        let s = st.as_mut_slice();
        if s.is_empty() {
            return None;
        }
        let k = nth % s.len();
        s[k].set_payload(payload);
        Some(s[k].ident())
    }
}
impl Caps for zoo::CPlainFlagDense {
    caps_join_mut!();
    caps_tracked!();
}
impl Caps for zoo::CHash {
    caps_join_mut!();
}
impl Caps for zoo::CBTree {
    caps_join_mut!();
}
impl Caps for zoo::CNull {
    caps_join_mut!();
}
impl Caps for zoo::CFlagDense {
    caps_join_mut!();
    caps_tracked!();
}
impl Caps for zoo::CFlagVec {
    caps_join_mut!();
    caps_tracked!();
}
impl Caps for zoo::CFlagHash {
    caps_join_mut!();
    caps_tracked!();
}
impl Caps for zoo::CFlagBTree {
    caps_join_mut!();
    caps_tracked!();
}
impl Caps for zoo::CFlagDefault {
    caps_join_mut!();
    caps_tracked!();
}
impl Caps for zoo::CFlagNull {
    caps_join_mut!();
    caps_tracked!();
}
impl Caps for zoo::CDerefHash {
    caps_tracked!();
}
impl Caps for zoo::CDerefDefault {
    caps_tracked!();
}
impl Caps for zoo::CDerefNull {
    caps_tracked!();
}
impl Caps for zoo::CDerefDense {
    caps_tracked!();
}
impl Caps for zoo::CDerefVec {
    caps_tracked!();
}
impl Caps for zoo::CDerefBTree {
    caps_tracked!();
}

// ---------------------------------------------------------------------------
// the four GenericReadStorage impls and the two GenericWriteStorage impls

pub fn gw_get_or_default<S>(mut s: S, e: Entity, payload: Option<u32>) -> Option<Ident>
where
    S: GenericWriteStorage,
    S::Component: ZooComp,
{
    s.get_mut_or_default(e).map(|mut a| {
        let id = a.ident();
        if let Some(p) = payload {
            a.access_mut().set_payload(p);
        }
        id
    })
}

pub fn gw_get_mut<S>(mut s: S, e: Entity, payload: Option<u32>) -> Option<Ident>
where
    S: GenericWriteStorage,
    S::Component: ZooComp,
{
    s.get_mut(e).map(|mut a| {
        let id = a.ident();
        if let Some(p) = payload {
            a.access_mut().set_payload(p);
        }
        id
    })
}

pub fn gw_insert<S>(mut s: S, e: Entity, c: S::Component) -> Result<Option<S::Component>, ()>
where
    S: GenericWriteStorage,
{
    s.insert(e, c).map_err(|_| ())
}

pub fn gw_remove<S: GenericWriteStorage>(mut s: S, e: Entity) {
    s.remove(e)
}

pub fn gr_get<S>(s: S, e: Entity) -> Option<Ident>
where
    S: specs::storage::GenericReadStorage,
    S::Component: ZooComp,
{
    s.get(e).map(|c| c.ident())
}

// ---------------------------------------------------------------------------
// expected events

#[derive(Clone, Copy, Debug, PartialEq, Eq, PartialOrd, Ord)]
enum Ev {
    Ins(u32),
    Rem(u32),
}

#[derive(Default, Debug)]
struct Expect {
    exact: Vec<Ev>,
    mod_required: BTreeSet<u32>,
    mod_allowed: BTreeSet<u32>,
}

impl Expect {
    fn ins(&mut self, i: u32) {
        self.exact.push(Ev::Ins(i));
    }
    fn rem(&mut self, i: u32) {
        self.exact.push(Ev::Rem(i));
    }
    /// mutable access handed to the caller; `deref` = caller actually wrote
    fn handed_out(&mut self, kind: Kind, i: u32, deref: bool) {
        if kind.deref_flagged() {
            if deref {
                self.mod_required.insert(i);
            }
        } else {
            self.mod_required.insert(i);
        }
    }
    fn allowed(&mut self, i: u32) {
        self.mod_allowed.insert(i);
    }
}

// ---------------------------------------------------------------------------
// interpreter

#[derive(Default, Debug, Clone)]
pub struct SeqFacts {
    pub distinct_indices: usize,
    pub remove_or_drain_then_insert: bool,
    pub removed_any: bool,
    pub overwrite_or_remove: bool,
    pub entity_deletion_with_comp: bool,
    pub drain_tracked: bool,
    pub partial_mutable_access: bool,
    pub live_at_teardown: usize,
    pub skipped: u32,
    pub slice_checks: u32,
    pub events_checked: u32,
    pub emission_toggled: bool,
    pub far_apart: bool,
    pub destroyed_in_last_op: Vec<u64>,
    pub zst_destroyed_in_last_op: u64,
    pub bomb_fired: bool,
    pub leaked_after_panic: usize,
    pub diverged_from_model: u32,
}

#[derive(Clone, Copy, PartialEq, Eq, Debug)]
pub enum Bomb {
    None,
    Serial(u64),
    ZstOrdinal(u64),
}

pub struct Mode {
    /// tag for differential failures ("C04" normally, "C19" in fault runs)
    pub diff_tag: &'static str,
    pub check_events: bool,
    /// index in ops of the operation executed under catch_unwind with the bomb armed
    pub fault_at: Option<usize>,
    pub bomb: Bomb,
    /// C08: the ledger is independent of the map model, so a divergence from the model (another
    /// property's business) re-synchronises the model and the sequence goes on to the teardown
    pub ledger_only: bool,
    /// same idea for C12: its end-of-sequence replay of all events against the final membership is
    /// independent of the map model
    pub events_only: bool,
}

struct Seq<C: Caps> {
    world: Option<World>,
    kind: Kind,
    cands: Vec<Entity>,
    alive: Vec<bool>,
    model: BTreeMap<u32, Ident>,
    aux: BTreeMap<u32, Ident>,
    ever: BTreeSet<u32>,
    probe: Vec<u32>,
    reader: Option<ReaderId<ComponentEvent>>,
    reader_all: Option<ReaderId<ComponentEvent>>,
    at_registration: BTreeSet<u32>,
    all_events: Vec<ComponentEvent>,
    emission: bool,
    emission_ever_off: bool,
    cleared: bool,
    facts: SeqFacts,
    tag: &'static str,
    check_events: bool,
    /// events are read through channel_mut() instead of channel()
    drain_mut: bool,
    /// serials the model says the library destroyed in the current step
    expect_destroyed: Vec<u64>,
    _c: std::marker::PhantomData<C>,
}

fn vio(prop: &str, sig: &str, msg: String) -> Violation {
    Violation::new(prop, sig, msg)
}

fn build_world<C: Caps>(pool: &Pool, how: usize) -> (World, Vec<Entity>, Vec<u32>) {
    let mut world = World::new();
    // the storage becomes known to the world in one of several ways; entity deletion must reach it in all
    match how % 4 {
        0 => world.setup::<WriteStorage<C>>(),
        1 => world.setup::<ReadStorage<C>>(),
        2 => world.register_with_storage::<_, C>(|| <C::Storage as specs::storage::TryDefault>::unwrap_default()),
        _ => {
            world.insert(specs::storage::MaskedStorage::<C>::new(<C::Storage as specs::storage::TryDefault>::unwrap_default()));
            world.register_with_storage::<_, C>(|| <C::Storage as specs::storage::TryDefault>::unwrap_default());
        }
    }
    world.register::<CAux>();
    let mut probe = vec![];
    let cands: Vec<Entity> = match pool {
        Pool::Dense(n) => world.create_iter().take((*n as usize).clamp(1, 60)).collect(),
        Pool::Sparse { total, picks } => {
            let total = (*total as usize).clamp(2, 6000);
            let all: Vec<Entity> = world.create_iter().take(total).collect();
            let mut set = BTreeSet::new();
            for p in picks.iter().take(24) {
                set.insert((*p as usize * total) >> 16);
            }
            set.insert(total - 1);
            set.into_iter().map(|i| all[i]).collect()
        }
        Pool::Layered { picks } => {
            let all: Vec<Entity> = world.create_iter().take(524_292).collect();
            let mut set = BTreeSet::new();
            for p in picks.iter().take(16) {
                set.insert(ATOMS[*p as usize % ATOMS.len()]);
            }
            set.insert(524_288);
            set.into_iter().map(|i| all[i as usize]).collect()
        }
    };
    for e in &cands {
        probe.push(e.id());
    }
    // a few dead handles whose indices sit on the free list
    let extra: Vec<Entity> = world.create_iter().take(3).collect();
    world.delete_entities(&extra).unwrap();
    let mut cands = cands;
    let n_live = cands.len();
    cands.extend(extra);
    let _ = n_live;
    (world, cands, probe)
}

impl<C: Caps> Seq<C> {
    fn new(case: &SeqCase, mode: &Mode) -> Seq<C> {
        zoo::ledger_reset();
        let (world, cands, probe) = build_world::<C>(&case.pool, case.ops.len() / 2);
        let n = cands.len();
        let mut alive = vec![true; n];
        for a in alive.iter_mut().skip(n - 3) {
            *a = false;
        }
        let mut s = Seq {
            world: Some(world),
            kind: case.kind,
            cands,
            alive,
            model: BTreeMap::new(),
            aux: BTreeMap::new(),
            ever: BTreeSet::new(),
            probe,
            reader: None,
            reader_all: None,
            at_registration: BTreeSet::new(),
            all_events: vec![],
            emission: true,
            emission_ever_off: false,
            cleared: false,
            facts: SeqFacts::default(),
            tag: mode.diff_tag,
            check_events: mode.check_events,
            drain_mut: false,
            expect_destroyed: vec![],
            _c: std::marker::PhantomData,
        };
        // aux storage: a value on every second live candidate
        {
            let w = s.world.as_ref().unwrap();
            let mut aux = w.write_storage::<CAux>();
            for (k, e) in s.cands.iter().enumerate() {
                if s.alive[k] && k % 2 == 0 {
                    let c = CAux::make(7);
                    s.aux.insert(e.id(), c.ident());
                    aux.insert(*e, c).unwrap();
                }
            }
            let mut st = w.write_storage::<C>();
            s.reader = C::register_reader(&mut st);
            s.reader_all = C::register_reader(&mut st);
        }
        s.facts.far_apart = s.probe.iter().any(|i| *i >= 4096);
        s
    }

    fn w(&self) -> &World {
        self.world.as_ref().unwrap()
    }

    fn pick(&self, sel: u16) -> usize {
        (sel as usize * self.cands.len()) >> 16
    }

    fn is_alive_at(&self, id: u32) -> Option<usize> {
        (0..self.cands.len()).find(|k| self.alive[*k] && self.cands[*k].id() == id)
    }

    /// Members whose index belongs to a live entity (all of them unless a
    /// destructor panic interrupted a purge and left orphans behind).
    fn live_model(&self) -> Vec<(u32, Ident)> {
        self.model
            .iter()
            .filter(|(i, _)| self.is_alive_at(**i).is_some())
            .map(|(k, v)| (*k, *v))
            .collect()
    }

    fn kill_model(&mut self, k: usize, ex: &mut Expect) {
        let id = self.cands[k].id();
        self.alive[k] = false;
        if let Some(ident) = self.model.remove(&id) {
            ex.rem(id);
            self.facts.entity_deletion_with_comp = true;
            self.facts.removed_any = true;
            self.expect_destroyed.push(ident.0);
        }
        if let Some(ident) = self.aux.remove(&id) {
            self.expect_destroyed.push(ident.0);
        }
    }

    fn model_insert(&mut self, id: u32, ident: Ident) {
        if self.facts.removed_any {
            self.facts.remove_or_drain_then_insert = true;
        }
        self.ever.insert(id);
        self.model.insert(id, ident);
    }

    fn set_payload_model(&mut self, id: u32, p: u32) {
        if !self.kind.zst() {
            if let Some(x) = self.model.get_mut(&id) {
                x.1 = p;
            }
        }
    }

    /// Executes one op on the real storage and the model; returns expected events.
    fn apply(&mut self, op: &SOp) -> Result<Expect, Violation> {
        let tag = self.tag;
        let kind = self.kind;
        let mut ex = Expect::default();
        match op {
            SOp::Insert(sel, p) => {
                let k = self.pick(*sel);
                let e = self.cands[k];
                let c = C::make(*p);
                let new = c.ident();
                // the inherent method, the GenericWriteStorage impl for WriteStorage and the one for &mut WriteStorage
                let r: Result<Option<C>, ()> = match *p % 3 {
                    0 => self.w().write_storage::<C>().insert(e, c).map_err(|_| ()),
                    1 => gw_insert(self.w().write_storage::<C>(), e, c),
                    _ => {
                        let mut st = self.w().write_storage::<C>();
                        gw_insert(&mut st, e, c)
                    }
                };
                if self.alive[k] {
                    let m = self.model.get(&e.id()).cloned();
                    match r {
                        Ok(old) => {
                            let got = old.as_ref().map(|o| o.ident());
                            caller_drop(old);
                            ensure!(tag, "insert-return", got == m, "{:?}: insert({:?}) returned {:?}, the map holds {:?}", kind, e, got, m);
                        }
                        Err(_) => return Err(vio(tag, "insert-refused", format!("{:?}: insert for the live {:?} refused", kind, e))),
                    }
                    if m.is_some() {
                        ex.mod_required.insert(e.id());
                        self.facts.overwrite_or_remove = true;
                    } else {
                        ex.ins(e.id());
                    }
                    self.model_insert(e.id(), new);
                } else {
                    ensure!("C03", "stale-insert-accepted", r.is_err(), "{:?}: insert through the dead {:?} accepted", kind, e);
                }
            }
            SOp::Remove(sel) | SOp::GenericRemove(sel) => {
                let k = self.pick(*sel);
                let e = self.cands[k];
                let generic = matches!(op, SOp::GenericRemove(_));
                let got = if generic {
                    if *sel % 2 == 0 {
                        gw_remove(self.w().write_storage::<C>(), e);
                    } else {
                        let mut st = self.w().write_storage::<C>();
                        gw_remove(&mut st, e);
                    }
                    None
                } else {
                    let r = self.w().write_storage::<C>().remove(e);
                    let id = r.as_ref().map(|c| c.ident());
                    caller_drop(r);
                    id
                };
                if self.alive[k] {
                    let m = self.model.remove(&e.id());
                    if !generic {
                        ensure!(tag, "remove-return", got == m, "{:?}: remove({:?}) returned {:?}, the map holds {:?}", kind, e, got, m);
                    }
                    if m.is_some() {
                        ex.rem(e.id());
                        self.facts.removed_any = true;
                        self.facts.overwrite_or_remove = true;
                    }
                } else {
                    ensure!("C03", "stale-remove", got.is_none(), "{:?}: remove through the dead {:?} returned {:?}", kind, e, got);
                }
            }
            SOp::Probe(sel) => {
                let k = self.pick(*sel);
                let e = self.cands[k];
                let st = self.w().read_storage::<C>();
                let g = st.get(e).map(|c| c.ident());
                let c = st.contains(e);
                let m = if self.alive[k] { self.model.get(&e.id()).cloned() } else { None };
                let g2 = gr_get(&st, e);
                drop(st);
                let g3 = gr_get(self.w().read_storage::<C>(), e);
                let g4 = gr_get(self.w().write_storage::<C>(), e);
                let g5 = {
                    let ws = self.w().write_storage::<C>();
                    gr_get(&ws, e)
                };
                ensure!(if self.alive[k] { tag } else { "C03" }, "generic-get", g2 == m && g3 == m && g4 == m && g5 == m,
                    "{:?}: GenericReadStorage::get({:?}) through &ReadStorage / ReadStorage / WriteStorage / &WriteStorage = {:?} / {:?} / {:?} / {:?}, the map holds {:?}", kind, e, g2, g3, g4, g5, m);
                ensure!(tag, "get", g == m && c == m.is_some(), "{:?}: get({:?})={:?} contains={}, the map holds {:?}", kind, e, g, c, m);
            }
            SOp::GetMut(sel, p, deref) => {
                let k = self.pick(*sel);
                let e = self.cands[k];
                let got = match *p % 5 {
                    0 => {
                        let mut st = self.w().write_storage::<C>();
                        let r = st.get_mut(e).map(|mut a| {
                            let id = a.ident();
                            if *deref {
                                a.access_mut().set_payload(*p);
                            }
                            id
                        });
                        r
                    }
                    1 => gw_get_mut(self.w().write_storage::<C>(), e, if *deref { Some(*p) } else { None }),
                    2 => {
                        let mut st = self.w().write_storage::<C>();
                        gw_get_mut(&mut st, e, if *deref { Some(*p) } else { None })
                    }
                    3 => {
                        // lookup by entity through a lending join
                        let w = self.w();
                        let ents = w.entities();
                        let mut st = w.write_storage::<C>();
                        let mut j = (&ents, &mut st).lend_join();
                        let r = j.get(e, &ents).map(|(_, mut a)| {
                            let id = a.ident();
                            if *deref {
                                a.access_mut().set_payload(*p);
                            }
                            id
                        });
                        r
                    }
                    _ => {
                        let w = self.w();
                        let ents = w.entities();
                        let mut st = w.write_storage::<C>();
                        let mut j = (&ents, (&mut st).maybe()).lend_join();
                        let r = j.get(e, &ents).and_then(|(_, m)| {
                            m.map(|mut a| {
                                let id = a.ident();
                                if *deref {
                                    a.access_mut().set_payload(*p);
                                }
                                id
                            })
                        });
                        r
                    }
                };
                let m = if self.alive[k] { self.model.get(&e.id()).cloned() } else { None };
                ensure!(tag, "get_mut", got == m, "{:?}: get_mut({:?}) saw {:?}, the map holds {:?}", kind, e, got, m);
                if m.is_some() {
                    ex.handed_out(kind, e.id(), *deref);
                    if *deref {
                        self.set_payload_model(e.id(), *p);
                    }
                }
            }
            SOp::OrInsert(sel, p, deref) | SOp::OrInsertWith(sel, p, deref) => {
                let k = self.pick(*sel);
                let e = self.cands[k];
                if !self.alive[k] {
                    let mut st = self.w().write_storage::<C>();
                    ensure!("C03", "stale-entry", st.entry(e).is_err(), "{:?}: entry through the dead {:?} granted", kind, e);
                    return Ok(ex);
                }
                let with = matches!(op, SOp::OrInsertWith(..));
                let m = self.model.get(&e.id()).cloned();
                let mut called = false;
                let mut new = None;
                let got = {
                    let mut st = self.w().write_storage::<C>();
                    let entry = st.entry(e).map_err(|_| vio(tag, "entry-refused", format!("{:?}: entry for the live {:?} refused", kind, e)))?;
                    let mut a = if with {
                        entry.or_insert_with(|| {
                            called = true;
                            let c = C::make(*p);
                            new = Some(c.ident());
                            c
                        })
                    } else {
                        let c = C::make(*p);
                        new = Some(c.ident());
                        entry.or_insert(c)
                    };
                    let id = a.ident();
                    if *deref {
                        a.access_mut().set_payload(p.wrapping_add(1));
                    }
                    id
                };
                if with {
                    ensure!(tag, "or_insert_with-closure", called == m.is_none(), "{:?}: or_insert_with closure called={} but the entry was occupied={}", kind, called, m.is_some());
                }
                let expect = m.or(new);
                ensure!(tag, "or_insert", Some(got) == expect, "{:?}: or_insert({:?}) yields {:?}, expected {:?}", kind, e, got, expect);
                if m.is_none() {
                    ex.ins(e.id());
                    self.model_insert(e.id(), got);
                }
                ex.handed_out(kind, e.id(), *deref);
                if *deref {
                    self.set_payload_model(e.id(), p.wrapping_add(1));
                }
            }
            SOp::Replace(sel, p) => {
                let k = self.pick(*sel);
                let e = self.cands[k];
                if !self.alive[k] {
                    return Ok(ex);
                }
                let m = self.model.get(&e.id()).cloned();
                let c = C::make(*p);
                let new = c.ident();
                let got = {
                    let mut st = self.w().write_storage::<C>();
                    let entry = st.entry(e).map_err(|_| vio(tag, "entry-refused", format!("{:?}: entry for the live {:?} refused", kind, e)))?;
                    let old = entry.replace(c);
                    let id = old.as_ref().map(|o| o.ident());
                    caller_drop(old);
                    id
                };
                ensure!(tag, "replace", got == m, "{:?}: entry.replace({:?}) returned {:?}, expected {:?}", kind, e, got, m);
                if m.is_some() {
                    ex.mod_required.insert(e.id());
                    self.facts.overwrite_or_remove = true;
                } else {
                    ex.ins(e.id());
                    ex.allowed(e.id());
                }
                self.model_insert(e.id(), new);
            }
            SOp::OccGet(sel) | SOp::OccGetMut(sel, ..) | SOp::OccInsert(sel, ..) | SOp::OccRemove(sel) | SOp::OccIntoMut(sel, ..) | SOp::VacInsert(sel, ..) => {
                let k = self.pick(*sel);
                let e = self.cands[k];
                if !self.alive[k] {
                    return Ok(ex);
                }
                let m = self.model.get(&e.id()).cloned();
                let mut st = self.w().write_storage::<C>();
                let entry = st.entry(e).map_err(|_| vio(tag, "entry-refused", format!("{:?}: entry for the live {:?} refused", kind, e)))?;
                match entry {
                    StorageEntry::Occupied(mut o) => {
                        ensure!(tag, "entry-occupancy", m.is_some(), "{:?}: entry({:?}) is occupied but the map has nothing", kind, e);
                        let seen = o.get().ident();
                        ensure!(tag, "entry-get", Some(seen) == m, "{:?}: occupied entry get({:?}) = {:?}, expected {:?}", kind, e, seen, m);
                        match op {
                            SOp::OccGetMut(_, p, deref) => {
                                let mut a = o.get_mut();
                                if *deref {
                                    a.access_mut().set_payload(*p);
                                }
                                drop(a);
                                ex.handed_out(kind, e.id(), *deref);
                                if *deref {
                                    drop(st);
                                    self.set_payload_model(e.id(), *p);
                                }
                            }
                            SOp::OccIntoMut(_, p, deref) => {
                                let mut a = o.into_mut();
                                if *deref {
                                    a.access_mut().set_payload(*p);
                                }
                                drop(a);
                                ex.handed_out(kind, e.id(), *deref);
                                if *deref {
                                    drop(st);
                                    self.set_payload_model(e.id(), *p);
                                }
                            }
                            SOp::OccInsert(_, p) => {
                                let c = C::make(*p);
                                let new = c.ident();
                                let old = o.insert(c);
                                let got = old.ident();
                                caller_drop(old);
                                ensure!(tag, "entry-insert", Some(got) == m, "{:?}: occupied entry insert returned {:?}, expected {:?}", kind, got, m);
                                ex.mod_required.insert(e.id());
                                drop(st);
                                self.facts.overwrite_or_remove = true;
                                self.model_insert(e.id(), new);
                            }
                            SOp::OccRemove(_) => {
                                let val = o.remove();
                                let got = val.ident();
                                caller_drop(val);
                                ensure!(tag, "entry-remove", Some(got) == m, "{:?}: occupied entry remove returned {:?}, expected {:?}", kind, got, m);
                                ex.rem(e.id());
                                drop(st);
                                self.model.remove(&e.id());
                                self.facts.removed_any = true;
                                self.facts.overwrite_or_remove = true;
                            }
                            _ => {}
                        }
                    }
                    StorageEntry::Vacant(vac) => {
                        ensure!(tag, "entry-occupancy", m.is_none(), "{:?}: entry({:?}) is vacant but the map holds {:?}", kind, e, m);
                        if let SOp::VacInsert(_, p, deref) = op {
                            let c = C::make(*p);
                            let new = c.ident();
                            let mut a = vac.insert(c);
                            let got = a.ident();
                            if *deref {
                                a.access_mut().set_payload(p.wrapping_add(1));
                            }
                            drop(a);
                            ensure!(tag, "vacant-insert", got == new, "{:?}: vacant insert hands back {:?}, inserted {:?}", kind, got, new);
                            ex.ins(e.id());
                            ex.handed_out(kind, e.id(), *deref);
                            drop(st);
                            self.model_insert(e.id(), new);
                            if *deref {
                                self.set_payload_model(e.id(), p.wrapping_add(1));
                            }
                        }
                    }
                }
            }
            SOp::EntriesJoin(pattern, p) => {
                if pattern.is_empty() {
                    return Ok(ex);
                }
                let mut bs = BitSet::new();
                for (k, e) in self.cands.iter().enumerate() {
                    if self.alive[k] {
                        bs.add(e.id());
                    }
                }
                let mut visited = vec![];
                let mut changes: Vec<(u32, Option<Ident>, Option<u32>)> = vec![];
                {
                    let w = self.w();
                    let ents = w.entities();
                    let mut st = w.write_storage::<C>();
                    let mut j = (st.entries(), &ents, &bs).lend_join();
                    let mut n = 0usize;
                    while let Some((entry, ent, idx)) = j.next() {
                        let act = pattern[n % pattern.len()] % 4;
                        n += 1;
                        let occupied = matches!(entry, StorageEntry::Occupied(_));
                        visited.push((idx, ent, occupied));
                        match (act, entry) {
                            (1, en) => {
                                let c = C::make(*p);
                                let new = c.ident();
                                let a = en.or_insert(c);
                                let got = a.ident();
                                drop(a);
                                changes.push((idx, Some(if occupied { got } else { new }), None));
                            }
                            (2, StorageEntry::Occupied(o)) => {
                                let val = o.remove();
                                caller_drop(val);
                                changes.push((idx, None, None));
                            }
                            (3, StorageEntry::Occupied(mut o)) => {
                                o.get_mut().access_mut().set_payload(*p);
                                changes.push((idx, Some((0, 0)), Some(*p)));
                            }
                            _ => {}
                        }
                    }
                }
                let expect_idx: Vec<u32> = bs.iter().collect();
                let got_idx: Vec<u32> = visited.iter().map(|v| v.0).collect();
                ensure!(tag, "entries-visit", got_idx == expect_idx, "{:?}: entries() join visited {:?}, expected the live candidates {:?}", kind, got_idx, expect_idx);
                for (idx, ent, occ) in &visited {
                    ensure!(tag, "entries-occupancy", *occ == self.model.contains_key(idx) && ent.id() == *idx,
                        "{:?}: entries() join reports index {} occupied={} ({:?}), the map says {}", kind, idx, occ, ent, self.model.contains_key(idx));
                }
                for (idx, val, pay) in changes {
                    match (val, pay) {
                        (Some(_), Some(p)) => {
                            ex.mod_required.insert(idx);
                            self.set_payload_model(idx, p);
                        }
                        (Some(id), None) => {
                            if !self.model.contains_key(&idx) {
                                ex.ins(idx);
                                self.model_insert(idx, id);
                            } else {
                                ensure!(tag, "entries-or_insert", self.model.get(&idx) == Some(&id), "{:?}: entries() or_insert on occupied index {} yields {:?}", kind, idx, id);
                            }
                            ex.handed_out(kind, idx, false);
                        }
                        (None, _) => {
                            self.model.remove(&idx);
                            ex.rem(idx);
                            self.facts.removed_any = true;
                        }
                    }
                }
            }
            SOp::GetOrDefault(sel, p, deref) => {
                let k = self.pick(*sel);
                let e = self.cands[k];
                let got = if *p % 2 == 0 {
                    gw_get_or_default(self.w().write_storage::<C>(), e, if *deref { Some(*p) } else { None })
                } else {
                    let mut st = self.w().write_storage::<C>();
                    gw_get_or_default(&mut st, e, if *deref { Some(*p) } else { None })
                };
                if self.alive[k] {
                    let m = self.model.get(&e.id()).cloned();
                    ensure!(tag, "get_or_default-none", got.is_some(), "{:?}: get_mut_or_default for the live {:?} returned None", kind, e);
                    match m {
                        Some(m) => ensure!(tag, "get_or_default", got == Some(m), "{:?}: get_mut_or_default({:?}) saw {:?}, expected {:?}", kind, e, got, m),
                        None => {
                            ensure!(tag, "get_or_default-default", got.unwrap().1 == 0, "{:?}: get_mut_or_default({:?}) created {:?}, not a default value", kind, e, got);
                            ex.ins(e.id());
                            self.model_insert(e.id(), got.unwrap());
                        }
                    }
                    ex.handed_out(kind, e.id(), *deref);
                    if *deref {
                        self.set_payload_model(e.id(), *p);
                    }
                } else {
                    ensure!("C03", "stale-get_or_default", got.is_none(), "{:?}: get_mut_or_default through the dead {:?} handed out {:?}", kind, e, got);
                }
            }
            SOp::Drain(Some(3)) => {
                // a drain consumed through an iterator adaptor: skip(1) discards the first item, which is
                // removed from the storage all the same
                let mut got: Vec<(u32, Ident)> = vec![];
                {
                    let w = self.w();
                    let ents = w.entities();
                    let mut st = w.write_storage::<C>();
                    for (e, c) in (&ents, st.drain()).join().skip(1) {
                        got.push((e.id(), c.ident()));
                        caller_drop(c);
                    }
                }
                let all = self.live_model();
                let expect: Vec<(u32, Ident)> = all.iter().skip(1).cloned().collect();
                ensure!(tag, "drain-items", got == expect, "{:?}: drain().join().skip(1) yielded {:?}, expected {:?}", kind, got, expect);
                for (i, _) in &all {
                    self.model.remove(i);
                    ex.rem(*i);
                    self.facts.removed_any = true;
                    if kind.tracked() {
                        self.facts.drain_tracked = true;
                    }
                }
            }
            SOp::Drain(take) => {
                let mut got: Vec<(u32, Ident)> = vec![];
                {
                    let w = self.w();
                    let ents = w.entities();
                    let mut st = w.write_storage::<C>();
                    let mut it = (&ents, st.drain()).join();
                    let limit = take.map(|t| t as usize).unwrap_or(usize::MAX);
                    while got.len() < limit {
                        match it.next() {
                            Some((e, c)) => {
                                got.push((e.id(), c.ident()));
                                caller_drop(c);
                            }
                            None => break,
                        }
                    }
                }
                let expect: Vec<(u32, Ident)> = match take {
                    None => self.live_model(),
                    Some(t) => self.live_model().into_iter().take(*t as usize).collect(),
                };
                ensure!(tag, "drain-items", got == expect, "{:?}: drain yielded {:?}, expected {:?} (ascending, each once)", kind, got, expect);
                for (i, _) in &got {
                    self.model.remove(i);
                    ex.rem(*i);
                    self.facts.removed_any = true;
                    if kind.tracked() {
                        self.facts.drain_tracked = true;
                    }
                }
            }
            SOp::DrainFiltered { take, lend, filter } => {
                if filter.is_empty() {
                    return Ok(ex);
                }
                let mut bs = BitSet::new();
                for (k, e) in self.cands.iter().enumerate() {
                    if filter[k % filter.len()] {
                        bs.add(e.id());
                    }
                }
                let limit = take.map(|t| t as usize).unwrap_or(usize::MAX);
                let mut got: Vec<(u32, Ident)> = vec![];
                {
                    let w = self.w();
                    let ents = w.entities();
                    let mut st = w.write_storage::<C>();
                    if *lend {
                        let mut j = (&ents, st.drain(), &bs).lend_join();
                        while got.len() < limit {
                            match j.next() {
                                Some((e, c, _)) => {
                                    got.push((e.id(), c.ident()));
                                    caller_drop(c);
                                }
                                None => break,
                            }
                        }
                    } else {
                        let mut it = (&ents, st.drain(), &bs).join();
                        while got.len() < limit {
                            match it.next() {
                                Some((e, c, _)) => {
                                    got.push((e.id(), c.ident()));
                                    caller_drop(c);
                                }
                                None => break,
                            }
                        }
                    }
                }
                let expect: Vec<(u32, Ident)> = self.live_model().into_iter().filter(|(i, _)| bs.contains(*i)).take(limit).collect();
                ensure!(tag, "drain-items", got == expect, "{:?}: filtered drain (lend_join={}) yielded {:?}, expected {:?}", kind, lend, got, expect);
                for (i, _) in &got {
                    self.model.remove(i);
                    ex.rem(*i);
                    self.facts.removed_any = true;
                    if kind.tracked() {
                        self.facts.drain_tracked = true;
                    }
                }
            }
            SOp::RestrictProbe(sel_item, sel_other, p) => {
                let members = self.model.len();
                if members == 0 {
                    return Ok(ex);
                }
                let n = (*sel_item as usize * members) >> 16;
                let ko = self.pick(*sel_other);
                let other = self.cands[ko];
                let m = if self.alive[ko] { self.model.get(&other.id()).cloned() } else { None };
                let shared = {
                    let st = self.w().read_storage::<C>();
                    let r = st.restrict();
                    let x = (&r).join().nth(n).map(|item| item.get_other(other).map(|c| c.ident()));
                    x
                };
                let (ex_r, ex_m) = {
                    let mut st = self.w().write_storage::<C>();
                    let mut r = st.restrict_mut();
                    let mut j = (&mut r).lend_join();
                    let mut k = 0;
                    let mut out = (None, None);
                    while let Some(mut item) = j.next() {
                        if k == n {
                            let a = item.get_other(other).map(|c| c.ident());
                            let b = item.get_other_mut(other).map(|mut acc| {
                                let id = acc.ident();
                                acc.access_mut().set_payload(*p);
                                id
                            });
                            out = (Some(a), Some(b));
                            break;
                        }
                        k += 1;
                    }
                    out
                };
                let ptag = if self.alive[ko] { "C13" } else { "C03" };
                ensure!(ptag, "restrict-get_other", shared == Some(m) && ex_r == Some(m) && ex_m == Some(m),
                    "{:?}: get_other({:?}) through item #{} of restrict() / restrict_mut() = {:?} / {:?} / get_other_mut {:?}, the storage's own rules give {:?}", kind, other, n, shared, ex_r, ex_m, m);
                if m.is_some() {
                    ex.mod_required.insert(other.id());
                    self.set_payload_model(other.id(), *p);
                }
            }
            SOp::CreateAtomic => {
                let e = self.w().entities().create();
                ensure!("C01", "index-shared", self.is_alive_at(e.id()).is_none(), "Entities::create returned {:?} whose index is occupied", e);
                if self.cands.len() < 200 {
                    self.cands.push(e);
                    self.alive.push(true);
                } else {
                    // keep the model in step: an entity the model does not know would break the entity scans
                    let _ = self.world.as_mut().unwrap().delete_entity(e);
                }
            }
            SOp::Clear => {
                self.w().write_storage::<C>().clear();
                self.expect_destroyed.extend(self.model.values().map(|v| v.0));
                self.model.clear();
                self.cleared = true;
                self.facts.removed_any = true;
            }
            SOp::JoinRead => {
                let w = self.w();
                let ents = w.entities();
                let st = w.read_storage::<C>();
                let got: Vec<(u32, Ident)> = (&ents, &st).join().map(|(e, c)| (e.id(), c.ident())).collect();
                let expect: Vec<(u32, Ident)> = self.live_model();
                ensure!(tag, "join-read", got == expect, "{:?}: (&entities,&storage).join() yields {:?}, the map holds {:?}", kind, got, expect);
            }
            SOp::JoinMut(pattern, p) => {
                if pattern.is_empty() {
                    return Ok(ex);
                }
                let mut seen: Vec<(u32, Ident)> = vec![];
                let mut writes: Vec<u32> = vec![];
                let supported = {
                    let mut st = self.w().write_storage::<C>();
                    let mut n = 0usize;
                    C::join_mut(&mut st, &mut |idx, id| {
                        seen.push((idx, id));
                        let wr = pattern[n % pattern.len()];
                        n += 1;
                        if wr {
                            writes.push(idx);
                            Some(*p)
                        } else {
                            None
                        }
                    })
                };
                if !supported {
                    self.facts.skipped += 1;
                    return Ok(ex);
                }
                let expect: Vec<(u32, Ident)> = self.live_model();
                ensure!(tag, "join-mut", seen == expect, "{:?}: (&entities,&mut storage).join() yields {:?}, the map holds {:?}", kind, seen, expect);
                for (i, _) in &seen {
                    ex.mod_required.insert(*i);
                }
                for i in writes {
                    self.set_payload_model(i, *p);
                }
            }
            SOp::LendJoinMut(pattern, p, take) => {
                if pattern.is_empty() {
                    return Ok(ex);
                }
                let mut seen: Vec<(u32, Ident)> = vec![];
                let mut writes: Vec<u32> = vec![];
                {
                    let w = self.w();
                    let ents = w.entities();
                    let mut st = w.write_storage::<C>();
                    let mut j = (&ents, &mut st).lend_join();
                    let limit = take.map(|t| t as usize).unwrap_or(usize::MAX);
                    let mut n = 0usize;
                    while n < limit {
                        match j.next() {
                            Some((e, mut a)) => {
                                seen.push((e.id(), a.ident()));
                                if pattern[n % pattern.len()] {
                                    a.access_mut().set_payload(*p);
                                    writes.push(e.id());
                                }
                                n += 1;
                            }
                            None => break,
                        }
                    }
                }
                let live = self.live_model();
                let expect: Vec<(u32, Ident)> = live.iter().take(seen.len()).cloned().collect();
                let full = take.is_none() || seen.len() < take.unwrap() as usize;
                ensure!(tag, "lend-join-mut", seen == expect && (!full || seen.len() == live.len()),
                    "{:?}: (&entities,&mut storage).lend_join() yields {:?}, the map holds {:?}", kind, seen, self.model);
                for (i, _) in &seen {
                    ex.handed_out(kind, *i, writes.contains(i));
                }
                if writes.len() < seen.len() && !writes.is_empty() {
                    self.facts.partial_mutable_access = true;
                }
                for i in writes {
                    self.set_payload_model(i, *p);
                }
            }
            SOp::MaybeJoinMut(pattern, p) => {
                if pattern.is_empty() {
                    return Ok(ex);
                }
                let mut bs = BitSet::new();
                for e in self.cands.iter() {
                    bs.add(e.id());
                }
                let mut seen: Vec<(u32, Option<Ident>)> = vec![];
                let mut writes = vec![];
                {
                    let mut st = self.w().write_storage::<C>();
                    let mut j = (&bs, (&mut st).maybe()).lend_join();
                    let mut n = 0usize;
                    while let Some((idx, m)) = j.next() {
                        match m {
                            Some(mut a) => {
                                seen.push((idx, Some(a.ident())));
                                if pattern[n % pattern.len()] {
                                    a.access_mut().set_payload(*p);
                                    writes.push(idx);
                                }
                            }
                            None => seen.push((idx, None)),
                        }
                        n += 1;
                    }
                }
                let expect: Vec<(u32, Option<Ident>)> = bs.iter().map(|i| (i, self.model.get(&i).cloned())).collect();
                ensure!(tag, "maybe-join", seen == expect, "{:?}: (&bitset,(&mut storage).maybe()).lend_join() yields {:?}, expected {:?}", kind, seen, expect);
                for (i, m) in &seen {
                    if m.is_some() {
                        ex.handed_out(kind, *i, writes.contains(i));
                    }
                }
                for i in writes {
                    self.set_payload_model(i, *p);
                }
            }
            SOp::RestrictMut(pattern, p, lending) => {
                if pattern.is_empty() {
                    return Ok(ex);
                }
                let mut seen: Vec<Ident> = vec![];
                // positions (in visit order) of the items fetched mutably
                let mut writes: Vec<usize> = vec![];
                if *lending {
                    let mut st = self.w().write_storage::<C>();
                    let mut r = st.restrict_mut();
                    let mut j = (&mut r).lend_join();
                    let mut n = 0usize;
                    while let Some(mut item) = j.next() {
                        let id = item.get().ident();
                        seen.push(id);
                        if pattern[n % pattern.len()] {
                            item.get_mut().access_mut().set_payload(*p);
                            writes.push(n);
                        }
                        n += 1;
                    }
                } else {
                    let mut st = self.w().write_storage::<C>();
                    let mut n = 0usize;
                    let ok = C::restrict_join_shared(&mut st, &mut |id| {
                        seen.push(id);
                        let wr = pattern[n % pattern.len()];
                        if wr {
                            writes.push(n);
                        }
                        n += 1;
                        if wr {
                            Some(*p)
                        } else {
                            None
                        }
                    });
                    if !ok {
                        drop(st);
                        self.facts.skipped += 1;
                        return Ok(ex);
                    }
                }
                let expect: Vec<Ident> = self.model.values().cloned().collect();
                ensure!("C13", "restrict-visit", seen == expect, "{:?}: restricted join sees {:?}, the storage holds {:?}", kind, seen, expect);
                // the join visits the members in index order, so position k is the k-th key
                let keys: Vec<u32> = self.model.keys().cloned().collect();
                if !writes.is_empty() && writes.len() < seen.len() {
                    self.facts.partial_mutable_access = true;
                }
                for k in writes {
                    let i = keys[k];
                    ex.mod_required.insert(i);
                    self.set_payload_model(i, *p);
                }
            }
            SOp::SliceWrite(sel, p) => {
                let keys: Vec<u32> = self.model.keys().cloned().collect();
                if keys.is_empty() {
                    return Ok(ex);
                }
                let nth = (*sel as usize * keys.len()) >> 16;
                let idx = keys[nth];
                let r = {
                    let mut st = self.w().write_storage::<C>();
                    C::slice_write(&mut st, idx, nth, *p)
                };
                match r {
                    None => self.facts.skipped += 1,
                    Some(id) => {
                        // the dense slice addresses values, not indices
                        let target = if kind == Kind::Dense || kind == Kind::PlainDense {
                            self.model.iter().find(|(_, v)| v.0 == id.0).map(|(k, _)| *k)
                        } else {
                            Some(idx)
                        };
                        match target {
                            Some(t) => {
                                ensure!(tag, "slice-write-target", self.model.get(&t).map(|v| v.0) == Some(id.0), "{:?}: as_mut_slice element for index {} is serial {}, the map holds {:?}", kind, t, id.0, self.model.get(&t));
                                self.set_payload_model(t, *p);
                            }
                            None => return Err(vio(tag, "slice-write-target", format!("{:?}: as_mut_slice exposes serial {} which the map does not hold", kind, id.0))),
                        }
                    }
                }
            }
            SOp::DeleteEntity(sel, how) => {
                let k = self.pick(*sel);
                let e = self.cands[k];
                match how {
                    DelHow::Now => {
                        let r = self.world.as_mut().unwrap().delete_entity(e);
                        ensure!("C02", "delete-result", r.is_ok() == self.alive[k], "delete_entity({:?}) ok={} but alive={}", e, r.is_ok(), self.alive[k]);
                        if self.alive[k] {
                            self.kill_model(k, &mut ex);
                        }
                    }
                    DelHow::BatchWithNext | DelHow::FailingBatch => {
                        let k2 = (k + 1) % self.cands.len();
                        let mut batch = vec![e, self.cands[k2]];
                        if matches!(how, DelHow::FailingBatch) {
                            batch.push(e);
                        }
                        let _ = self.world.as_mut().unwrap().delete_entities(&batch);
                        let mut dead_hit = false;
                        for kk in [k, k2] {
                            if dead_hit {
                                break;
                            }
                            if self.alive[kk] {
                                self.kill_model(kk, &mut ex);
                            } else {
                                dead_hit = true;
                            }
                        }
                    }
                    DelHow::AtomicMaintain => {
                        let r = self.w().entities().delete(e);
                        ensure!("C02", "delete-result", r.is_ok() == self.alive[k], "Entities::delete({:?}) ok={} but alive={}", e, r.is_ok(), self.alive[k]);
                        self.world.as_mut().unwrap().maintain();
                        if self.alive[k] {
                            self.kill_model(k, &mut ex);
                        }
                    }
                }
            }
            SOp::DeleteAll => {
                // either the candidates in one batch, or really everything (in sparse / layered pools that is a
                // batch of thousands of entities of which only the candidates hold components)
                if self.cands.len() % 2 == 0 {
                    self.world.as_mut().unwrap().delete_all();
                } else {
                    let batch: Vec<Entity> = (0..self.cands.len()).filter(|k| self.alive[*k]).map(|k| self.cands[k]).collect();
                    let r = self.world.as_mut().unwrap().delete_entities(&batch);
                    ensure!("C02", "delete-result", r.is_ok(), "delete_entities of live entities failed: {:?}", r);
                }
                for k in 0..self.cands.len() {
                    if self.alive[k] {
                        self.kill_model(k, &mut ex);
                    }
                }
            }
            SOp::CreateEntity => {
                let e = self.world.as_mut().unwrap().create_entity().build();
                ensure!("C01", "index-shared", self.is_alive_at(e.id()).is_none(), "create_entity returned {:?} whose index is occupied", e);
                ensure!("C05", "new-entity-has-component", !self.model.contains_key(&e.id()) || self.tag == "C19",
                    "{:?}: the new entity {:?} already has a component in the model", kind, e);
                if self.cands.len() < 200 {
                    self.cands.push(e);
                    self.alive.push(true);
                }
            }
            SOp::LazyInsertMaintain(sel, p) => {
                let k = self.pick(*sel);
                let e = self.cands[k];
                let c = C::make(*p);
                let new = c.ident();
                self.w().read_resource::<LazyUpdate>().insert(e, c);
                self.world.as_mut().unwrap().maintain();
                if self.alive[k] {
                    if self.model.contains_key(&e.id()) {
                        ex.mod_required.insert(e.id());
                        self.facts.overwrite_or_remove = true;
                    } else {
                        ex.ins(e.id());
                    }
                    self.model_insert(e.id(), new);
                }
            }
            SOp::SetEmission(on) => {
                let ok = {
                    let mut st = self.w().write_storage::<C>();
                    C::set_emission(&mut st, *on)
                };
                if ok {
                    self.emission = *on;
                    if !*on {
                        self.emission_ever_off = true;
                    }
                    self.facts.emission_toggled = true;
                } else {
                    self.facts.skipped += 1;
                }
            }
            SOp::DropWorld => {}
        }
        Ok(ex)
    }

    fn check_events(&mut self, op: &SOp, ex: &Expect) -> Verdict {
        if self.reader.is_none() || !self.check_events {
            return Ok(());
        }
        let kind = self.kind;
        let evs = if self.drain_mut {
            let mut st = self.world.as_ref().unwrap().write_storage::<C>();
            C::read_events_mut(&mut st, self.reader.as_mut().unwrap())
        } else {
            let st = self.world.as_ref().unwrap().read_storage::<C>();
            C::read_events(&st, self.reader.as_mut().unwrap())
        };
        self.facts.events_checked += 1;
        if !self.emission {
            ensure!("C12", "event-while-off", evs.is_empty(), "{:?}: events {:?} emitted by {:?} while emission is switched off", kind, evs, op);
            return Ok(());
        }
        let mut exact: Vec<Ev> = vec![];
        let mut mods = BTreeSet::new();
        for e in &evs {
            match e {
                ComponentEvent::Inserted(i) => exact.push(Ev::Ins(*i)),
                ComponentEvent::Removed(i) => exact.push(Ev::Rem(*i)),
                ComponentEvent::Modified(i) => {
                    mods.insert(*i);
                }
            }
        }
        let mut want = ex.exact.clone();
        want.sort();
        let mut have = exact.clone();
        have.sort();
        if want != have {
            let missing: Vec<&Ev> = want.iter().filter(|e| !have.contains(e)).collect();
            let sig = if missing.iter().any(|e| matches!(e, Ev::Rem(_))) {
                "missing-removed"
            } else if missing.iter().any(|e| matches!(e, Ev::Ins(_))) {
                "missing-inserted"
            } else {
                "unexpected-insert-remove-event"
            };
            return Err(vio("C12", sig, format!("{:?}: {:?} produced insertion/removal events {:?}, expected exactly {:?} (all events: {:?})", kind, op, exact, ex.exact, evs)));
        }
        for i in &ex.mod_required {
            ensure!("C12", "missing-modified", mods.contains(i), "{:?}: {:?} gave mutable access to index {} but no Modified event was produced (events {:?})", kind, op, i, evs);
        }
        for i in &mods {
            ensure!("C12", "spurious-modified", ex.mod_required.contains(i) || ex.mod_allowed.contains(i),
                "{:?}: {:?} produced Modified({}) although that component was not accessed mutably (events {:?})", kind, op, i, evs);
        }
        Ok(())
    }

    /// Full comparison of the storage with the map.
    fn scan(&mut self) -> Verdict {
        let tag = self.tag;
        let kind = self.kind;
        let errs = with_ledger(|l| l.take_errors());
        if let Some(e) = errs.first() {
            return Err(vio(if tag == "C19" { "C19" } else { "C08" }, "ledger", e.clone()));
        }
        let lt = if tag == "C19" { "C19" } else { "C08" };
        // C08: values purged by an entity deletion / clear are destroyed by that very operation
        for serial in std::mem::take(&mut self.expect_destroyed) {
            if serial != 0 && tag != "C19" {
                let st = with_ledger(|l| l.state_of(serial));
                ensure!("C08", "not-destroyed-on-deletion", st != Some(zoo::St::Live),
                    "{:?}: the value with serial {} is still alive after the operation that deletes its entity / clears the storage", kind, serial);
            }
        }
        let w = self.world.as_ref().unwrap();
        let st = w.read_storage::<C>();
        let mask: Vec<u32> = st.mask().iter().collect();
        let keys: Vec<u32> = self.model.keys().cloned().collect();
        ensure!(tag, "mask", mask == keys, "{:?}: mask {:?} differs from the map's keys {:?}", kind, mask, keys);
        ensure!(tag, "count", st.count() == keys.len() && st.is_empty() == keys.is_empty(), "{:?}: count {} is_empty {} vs {} keys", kind, st.count(), st.is_empty(), keys.len());
        for (k, e) in self.cands.iter().enumerate() {
            let g = st.get(*e);
            if let Some(c) = g {
                if let Err(m) = c.check() {
                    return Err(vio(lt, "exposed-dead-value", format!("{:?}: get({:?}) exposes: {}", kind, e, m)));
                }
            }
            let g = g.map(|c| c.ident());
            let m = if self.alive[k] { self.model.get(&e.id()).cloned() } else { None };
            ensure!(if self.alive[k] { tag } else { "C03" }, "lookup", g == m && st.contains(*e) == m.is_some(),
                "{:?}: get({:?}) = {:?} (alive={}), the map holds {:?}", kind, e, g, self.alive[k], m);
        }
        // slices
        let occupied: BTreeSet<u32> = self.model.keys().cloned().collect();
        if let Some(view) = C::slice_view(&st, &occupied, &self.probe) {
            self.facts.slice_checks += 1;
            match view {
                SliceView::Indexed { len, at } => {
                    for (i, r, occ) in at {
                        match r {
                            Err(m) => return Err(vio(if occ { tag } else { lt }, "slice-slot", format!("{:?}: as_slice()[{}] (len {}): {}", kind, i, len, m))),
                            Ok(id) => {
                                if occ {
                                    ensure!(tag, "slice-occupied", Some(&id) == self.model.get(&(i as u32)), "{:?}: as_slice()[{}] = {:?}, the map holds {:?}", kind, i, id, self.model.get(&(i as u32)));
                                } else {
                                    let placeholder = with_ledger(|l| l.state.get(id.0 as usize - 1).map(|s| s.1).unwrap_or(false));
                                    // after a caught destructor panic the slot may hold a live value that
                                    // never made it into the mask; only liveness is required then
                                    ensure!(tag, "slice-default", (placeholder && id.1 == 0) || tag == "C19", "{:?}: as_slice()[{}] = {:?} at an unoccupied index is not a default-constructed value", kind, i, id);
                                }
                            }
                        }
                    }
                }
                SliceView::Dense(vals) => {
                    let mut got = vec![];
                    for r in vals {
                        match r {
                            Ok(id) => got.push(id),
                            Err(m) => return Err(vio(lt, "slice-slot", format!("{:?}: dense slice element: {}", kind, m))),
                        }
                    }
                    got.sort();
                    let mut want: Vec<Ident> = self.model.values().cloned().collect();
                    want.sort();
                    ensure!(tag, "dense-slice", got == want, "{:?}: dense slice {:?} is not a permutation of the stored values {:?}", kind, got, want);
                }
            }
        }
        // aux storage untouched
        let aux = w.read_storage::<CAux>();
        let amask: Vec<u32> = aux.mask().iter().collect();
        let akeys: Vec<u32> = self.aux.keys().cloned().collect();
        ensure!(if tag == "C19" { "C19" } else { "C05" }, "aux-mask", amask == akeys, "auxiliary storage mask {:?} differs from {:?}", amask, akeys);
        for (k, e) in self.cands.iter().enumerate() {
            if self.alive[k] {
                if let Some(c) = aux.get(*e) {
                    if let Err(m) = c.check() {
                        return Err(vio(lt, "exposed-dead-value", format!("auxiliary storage get({:?}): {}", e, m)));
                    }
                }
                ensure!(if tag == "C19" { "C19" } else { "C05" }, "aux-value", aux.get(*e).map(|c| c.ident()) == self.aux.get(&e.id()).cloned(), "auxiliary component of {:?} changed", e);
            }
        }
        Ok(())
    }

    /// After a caught panic: rebuild the map from what is observable.
    fn resync(&mut self) -> Verdict {
        let w = self.world.as_ref().unwrap();
        let st = w.read_storage::<C>();
        let mut model = BTreeMap::new();
        let mask: Vec<u32> = st.mask().iter().collect();
        let vals: Vec<Ident> = {
            let mut out = vec![];
            for c in (&st).join() {
                if let Err(m) = c.check() {
                    return Err(vio(if self.tag == "C08" { "C08" } else { "C19" }, "stale-read-after-panic", format!("{:?}: join exposes: {}", self.kind, m)));
                }
                out.push(c.ident());
            }
            out
        };
        ensure!("C19", "join-mask-after-panic", vals.len() == mask.len(), "join yields {} items for a mask of {}", vals.len(), mask.len());
        for (i, v) in mask.iter().zip(vals) {
            model.insert(*i, v);
        }
        self.model = model;
        let ents = w.entities();
        for (k, e) in self.cands.iter().enumerate() {
            self.alive[k] = ents.is_alive(*e);
        }
        let aux = w.read_storage::<CAux>();
        let amask: Vec<u32> = aux.mask().iter().collect();
        let mut am = BTreeMap::new();
        for (i, c) in amask.iter().zip((&aux).join()) {
            if let Err(m) = c.check() {
                return Err(vio("C19", "stale-read-after-panic", format!("auxiliary storage join after the caught panic exposes: {}", m)));
            }
            am.insert(*i, c.ident());
        }
        self.aux = am;
        // drain pending events; they are not judged after a panic
        if let Some(r) = self.reader.as_mut() {
            let _ = C::read_events(&st, r);
        }
        Ok(())
    }

    fn teardown(&mut self, after_panic: bool) -> Verdict {
        // C12: replay of the never-drained reader
        if self.check_events && self.reader_all.is_some() && self.world.is_some() {
            let st = self.world.as_ref().unwrap().read_storage::<C>();
            let evs = C::read_events(&st, self.reader_all.as_mut().unwrap());
            if !self.emission_ever_off && !self.cleared && !after_panic {
                let mut set = self.at_registration.clone();
                for e in &evs {
                    match e {
                        ComponentEvent::Inserted(i) => {
                            ensure!("C12", "replay-insert-existing", set.insert(*i), "{:?}: replay of all events: Inserted({}) for an index that already is a member", self.kind, i);
                        }
                        ComponentEvent::Removed(i) => {
                            ensure!("C12", "replay-remove-missing", set.remove(i), "{:?}: replay of all events: Removed({}) for an index that is not a member", self.kind, i);
                        }
                        _ => {}
                    }
                }
                let mask: BTreeSet<u32> = st.mask().iter().collect();
                ensure!("C12", "replay-membership", set == mask, "{:?}: replaying insertions and removals gives {:?}, the storage's membership is {:?}", self.kind, set, mask);
            }
            drop(st);
            self.all_events = evs;
        }
        self.facts.live_at_teardown = self.model.len();
        let world = self.world.take();
        drop(world);
        let lt = if self.tag == "C19" { "C19" } else { "C08" };
        let (errs, live, zc, zd) = with_ledger(|l| (l.take_errors(), l.live_serials(), l.zst_constructed, l.zst_by_caller + l.zst_by_library));
        if let Some(e) = errs.first() {
            return Err(vio(lt, "ledger", e.clone()));
        }
        if after_panic {
            self.facts.leaked_after_panic = live.len();
        } else {
            ensure!("C08", "leak", live.is_empty(), "{:?}: values with serials {:?} were neither returned nor destroyed when the world was dropped", self.kind, live);
            ensure!("C08", "zst-leak", zc == zd, "{:?}: {} zero-sized components constructed but {} destroyed/returned", self.kind, zc, zd);
        }
        Ok(())
    }
}

pub fn run_case<C: Caps>(case: &SeqCase, mode: &Mode) -> Result<SeqFacts, Violation> {
    let mut s = Seq::<C>::new(case, mode);
    s.drain_mut = case.ops.len() % 2 == 1;
    s.scan()?;
    let mut after_panic = false;
    for (n, op) in case.ops.iter().enumerate() {
        let fault_here = mode.fault_at == Some(n);
        if fault_here || (mode.fault_at.is_none() && n + 1 == case.ops.len()) {
            // record what this operation destroys
            with_ledger(|l| l.drop_log = Some(vec![]));
        }
        let zst_before = with_ledger(|l| l.zst_by_library + l.zst_by_caller);
        if matches!(op, SOp::DropWorld) {
            // dropping the world ends the sequence
            let record = fault_here || mode.fault_at.is_none();
            if record {
                with_ledger(|l| l.drop_log = Some(vec![]));
            }
            let world = s.world.take();
            if fault_here {
                arm(mode.bomb);
                let r = catch_unwind(AssertUnwindSafe(|| drop(world)));
                disarm();
                if r.is_err() {
                    let msg = crate::engine::take_last_panic().unwrap_or_default();
                    if !msg.contains("verif-bomb") {
                        return Err(vio("C19", "other-panic", format!("dropping the world panicked with {:?} instead of the injected destructor panic", msg)));
                    }
                    after_panic = true;
                    s.facts.bomb_fired = true;
                    s.tag = "C19";
                }
            } else {
                drop(world);
            }
            if record {
                if let Some(log) = with_ledger(|l| l.drop_log.take()) {
                    s.facts.destroyed_in_last_op = log;
                    s.facts.zst_destroyed_in_last_op = with_ledger(|l| l.zst_by_library + l.zst_by_caller) - zst_before;
                }
            }
            break;
        }
        if fault_here {
            arm(mode.bomb);
            let r = catch_unwind(AssertUnwindSafe(|| s.apply(op)));
            let fired = disarm();
            match r {
                Ok(Ok(_)) => {
                    if fired {
                        // panicked inside a caller-side drop that we caught? not possible; treat as fired
                    }
                    s.scan()?;
                }
                Ok(Err(v)) => return Err(v),
                Err(_) => {
                    let msg = crate::engine::take_last_panic().unwrap_or_default();
                    if !msg.contains("verif-bomb") {
                        return Err(vio("C19", "other-panic", format!("operation {:?} panicked with {:?} instead of the injected destructor panic", op, msg)));
                    }
                    with_ledger(|l| l.caller_drop = false);
                    after_panic = true;
                    s.facts.bomb_fired = true;
                    s.tag = "C19";
                    let errs = with_ledger(|l| l.take_errors());
                    if let Some(e) = errs.first() {
                        return Err(vio("C19", "double-drop", e.clone()));
                    }
                    s.resync()?;
                    s.scan()?;
                }
            }
        } else {
            let restricted = matches!(op, SOp::RestrictMut(..) | SOp::RestrictProbe(..));
            let retag = |mut v: Violation| {
                // a restricted join that disturbs other components or events is C13's business
                if restricted && (v.prop == mode.diff_tag || v.prop == "C12") {
                    v.prop = "C13".to_string();
                }
                v
            };
            let step = (|| -> Verdict {
                let ex = s.apply(op).map_err(retag)?;
                s.check_events(op, &ex).map_err(retag)?;
                s.scan().map_err(retag)
            })();
            match step {
                Ok(()) => {}
                Err(v) if ((mode.ledger_only && v.prop != "C08") || (mode.events_only && v.prop != "C12" && v.prop != "C13")) && s.world.is_some() => {
                    s.facts.diverged_from_model += 1;
                    s.expect_destroyed.clear();
                    let tag = s.tag;
                    s.tag = if mode.ledger_only { "C08" } else { "C12" };
                    let r = s.resync();
                    s.tag = tag;
                    if r.is_err() {
                        return Err(v);
                    }
                }
                Err(v) => return Err(v),
            }
        }
        if let Some(log) = with_ledger(|l| l.drop_log.take()) {
            s.facts.destroyed_in_last_op = log;
            s.facts.zst_destroyed_in_last_op = with_ledger(|l| l.zst_by_library + l.zst_by_caller) - zst_before;
        }
    }
    s.facts.distinct_indices = s.ever.len();
    s.teardown(after_panic)?;
    Ok(s.facts.clone())
}

fn arm(b: Bomb) {
    with_ledger(|l| {
        l.bomb_fired = false;
        match b {
            Bomb::None => {}
            Bomb::Serial(s) => l.bomb_serial = Some(s),
            Bomb::ZstOrdinal(o) => l.bomb_zst_ordinal = Some(l.zst_by_library + o),
        }
    });
}

fn disarm() -> bool {
    with_ledger(|l| {
        l.bomb_serial = None;
        l.bomb_zst_ordinal = None;
        l.bomb_fired
    })
}

pub fn run_case_dyn(case: &SeqCase, mode: &Mode) -> Result<SeqFacts, Violation> {
    with_kind!(case.kind, run_case(case, mode))
}

// ---------------------------------------------------------------------------
// generators

pub fn pool_strategy() -> impl Strategy<Value = Pool> {
    prop_oneof![
        10 => (1u8..40).prop_map(Pool::Dense),
        6 => (64u16..6000, proptest::collection::vec(any::<u16>(), 1..16)).prop_map(|(total, picks)| Pool::Sparse { total, picks }),
        1 => proptest::collection::vec(0u8..22, 2..12).prop_map(|picks| Pool::Layered { picks }),
    ]
}

#[derive(Clone, Copy)]
pub struct SeqProfile {
    pub clear: u32,
    pub emission: u32,
    pub entity_ops: u32,
    pub joins: u32,
}

pub const C04_PROFILE: SeqProfile = SeqProfile { clear: 2, emission: 0, entity_ops: 3, joins: 4 };
pub const C12_PROFILE: SeqProfile = SeqProfile { clear: 0, emission: 2, entity_ops: 6, joins: 8 };

pub fn sop_strategy(p: SeqProfile) -> BoxedStrategy<SOp> {
    let pat = || proptest::collection::vec(any::<bool>(), 1..6);
    let basic = prop_oneof![
        8 => (any::<u16>(), 1u32..1000).prop_map(|(s, p)| SOp::Insert(s, p)),
        4 => any::<u16>().prop_map(SOp::Remove),
        1 => any::<u16>().prop_map(SOp::GenericRemove),
        2 => any::<u16>().prop_map(SOp::Probe),
        3 => (any::<u16>(), 1u32..1000, any::<bool>()).prop_map(|(s, p, d)| SOp::GetMut(s, p, d)),
        2 => (any::<u16>(), 1u32..1000, any::<bool>()).prop_map(|(s, p, d)| SOp::GetOrDefault(s, p, d)),
    ];
    let entry = prop_oneof![
        (any::<u16>(), 1u32..1000, any::<bool>()).prop_map(|(s, p, d)| SOp::OrInsert(s, p, d)),
        (any::<u16>(), 1u32..1000, any::<bool>()).prop_map(|(s, p, d)| SOp::OrInsertWith(s, p, d)),
        (any::<u16>(), 1u32..1000).prop_map(|(s, p)| SOp::Replace(s, p)),
        any::<u16>().prop_map(SOp::OccGet),
        (any::<u16>(), 1u32..1000, any::<bool>()).prop_map(|(s, p, d)| SOp::OccGetMut(s, p, d)),
        (any::<u16>(), 1u32..1000).prop_map(|(s, p)| SOp::OccInsert(s, p)),
        any::<u16>().prop_map(SOp::OccRemove),
        (any::<u16>(), 1u32..1000, any::<bool>()).prop_map(|(s, p, d)| SOp::OccIntoMut(s, p, d)),
        (any::<u16>(), 1u32..1000, any::<bool>()).prop_map(|(s, p, d)| SOp::VacInsert(s, p, d)),
        (proptest::collection::vec(0u8..4, 1..6), 1u32..1000).prop_map(|(v, p)| SOp::EntriesJoin(v, p)),
    ];
    let joins = prop_oneof![
        2 => proptest::option::of(0u8..4).prop_map(SOp::Drain),
        2 => (proptest::option::of(0u8..4), any::<bool>(), pat()).prop_map(|(take, lend, filter)| SOp::DrainFiltered { take, lend, filter }),
        2 => (any::<u16>(), any::<u16>(), 1u32..1000).prop_map(|(a, b, p)| SOp::RestrictProbe(a, b, p)),
        1 => Just(SOp::JoinRead),
        2 => (pat(), 1u32..1000).prop_map(|(v, p)| SOp::JoinMut(v, p)),
        2 => (pat(), 1u32..1000, proptest::option::of(0u8..4)).prop_map(|(v, p, t)| SOp::LendJoinMut(v, p, t)),
        1 => (pat(), 1u32..1000).prop_map(|(v, p)| SOp::MaybeJoinMut(v, p)),
        2 => (pat(), 1u32..1000, any::<bool>()).prop_map(|(v, p, l)| SOp::RestrictMut(v, p, l)),
        1 => (any::<u16>(), 1u32..1000).prop_map(|(s, p)| SOp::SliceWrite(s, p)),
    ];
    let how = prop_oneof![Just(DelHow::Now), Just(DelHow::BatchWithNext), Just(DelHow::FailingBatch), Just(DelHow::AtomicMaintain)];
    let entity = prop_oneof![
        4 => (any::<u16>(), how).prop_map(|(s, h)| SOp::DeleteEntity(s, h)),
        1 => Just(SOp::DeleteAll),
        3 => Just(SOp::CreateEntity),
        2 => Just(SOp::CreateAtomic),
        2 => (any::<u16>(), 1u32..1000).prop_map(|(s, p)| SOp::LazyInsertMaintain(s, p)),
    ];
    prop_oneof![
        20 => basic,
        10 => entry,
        p.joins => joins,
        p.entity_ops => entity,
        p.clear => Just(SOp::Clear),
        p.emission => any::<bool>().prop_map(SOp::SetEmission),
    ]
    .boxed()
}

pub fn case_strategy(kinds: Vec<Kind>, p: SeqProfile, max_ops: usize) -> impl Strategy<Value = SeqCase> {
    (
        proptest::sample::select(kinds),
        pool_strategy(),
        proptest::collection::vec(sop_strategy(p), 0..=max_ops),
    )
        .prop_map(|(kind, pool, ops)| SeqCase { kind, pool, ops })
}

/// Sequences for C13: content-changing operations interleaved with many restricted joins.
pub fn restrict_case_strategy(max_ops: usize) -> impl Strategy<Value = SeqCase> {
    let pat = || proptest::collection::vec(any::<bool>(), 1..6);
    let how = prop_oneof![Just(DelHow::Now), Just(DelHow::AtomicMaintain)];
    let op = prop_oneof![
        8 => (any::<u16>(), 1u32..1000).prop_map(|(s, p)| SOp::Insert(s, p)),
        2 => any::<u16>().prop_map(SOp::Remove),
        1 => (any::<u16>(), how).prop_map(|(s, h)| SOp::DeleteEntity(s, h)),
        1 => Just(SOp::CreateEntity),
        1 => Just(SOp::CreateAtomic),
        1 => any::<bool>().prop_map(SOp::SetEmission),
        8 => (pat(), 1u32..1000, any::<bool>()).prop_map(|(v, p, l)| SOp::RestrictMut(v, p, l)),
        6 => (any::<u16>(), any::<u16>(), 1u32..1000).prop_map(|(a, b, p)| SOp::RestrictProbe(a, b, p)),
    ];
    (proptest::sample::select(all_kinds()), pool_strategy(), proptest::collection::vec(op, 0..=max_ops))
        .prop_map(|(kind, pool, ops)| SeqCase { kind, pool, ops })
}

pub fn all_kinds() -> Vec<Kind> {
    ALL_KINDS.to_vec()
}

pub fn tracked_kinds() -> Vec<Kind> {
    ALL_KINDS.iter().cloned().filter(|k| k.tracked()).collect()
}
