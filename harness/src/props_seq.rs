//! Properties decided by single-storage operation sequences (stoseq.rs):
//! C04 (differential vs BTreeMap), C08 (ledger), C12 (events), C19 (faults).

use proptest::prelude::*;
use serde::{Deserialize, Serialize};
use serde_json::Value;

use crate::{
    engine::{parse_case, run_proptest, Property, ShardCtx, ShardResult, Stats, SubCheck, Tier, Verdict, Violation},
    hist,
    stoseq::{self, Bomb, Mode, SOp, SeqCase, SeqFacts},
};

fn label(stats: &mut Stats, case: &SeqCase, f: &SeqFacts) {
    stats.label(&format!("kind.{:?}", case.kind));
    match case.pool {
        stoseq::Pool::Dense(_) => stats.label("pool.dense"),
        stoseq::Pool::Sparse { .. } => stats.label("pool.sparse"),
        stoseq::Pool::Layered { .. } => stats.label("pool.layered"),
    }
    if f.remove_or_drain_then_insert {
        stats.label("remove_then_insert");
    }
    if f.entity_deletion_with_comp {
        stats.label("entity_deletion_with_comp");
    }
    if f.partial_mutable_access {
        stats.label("partial_mutable_access");
    }
    if f.drain_tracked {
        stats.label("drain_tracked");
    }
    if f.emission_toggled {
        stats.label("emission_toggled");
    }
    if f.slice_checks > 0 {
        stats.label("slice_checked");
    }
    if f.far_apart {
        stats.label("far_apart_indices");
    }
    stats.label_n("ops_skipped_unsupported_for_kind", f.skipped as u64);
    stats.label_n("event_reads_checked", f.events_checked as u64);
}

const NORMAL: Mode = Mode { diff_tag: "C04", check_events: true, fault_at: None, bomb: Bomb::None , ledger_only: false, events_only: false };

fn replay_seq(v: &Value) -> Verdict {
    let c: SeqCase = parse_case("seq", v)?;
    stoseq::run_case_dyn(&c, &NORMAL).map(|_| ())
}

// --------------------------------------------------------------------------- C04

fn c04_run(ctx: &ShardCtx) -> ShardResult {
    let max_ops = ctx.tier.pick(60, 300);
    let cases = ctx.tier.pick(8000, 120_000);
    run_proptest(ctx, stoseq::case_strategy(stoseq::all_kinds(), stoseq::C04_PROFILE, max_ops), cases, 4, |c, stats| {
        let f = stoseq::run_case_dyn(c, &NORMAL)?;
        label(stats, c, &f);
        stats.case(c, f.remove_or_drain_then_insert && f.distinct_indices >= 3);
        Ok(())
    })
}

fn c04_fuzz(ctx: &ShardCtx) -> ShardResult {
    crate::engine::run_fuzz(ctx, "seq_target", "C04")
}

fn c08_fuzz(ctx: &ShardCtx) -> ShardResult {
    crate::engine::run_fuzz(ctx, "seq_target", "C08")
}

const FUZZ_RULE: &str = "thorough tier only: libFuzzer (cargo-fuzz, AddressSanitizer) campaigns (120000 executions per shard for histories, 200000 for storage sequences) on a target that decodes bytes (arbitrary::Unstructured) into the same SeqCase type (all 21 storage configurations, dense and sparse pools) and runs the same interpreter and oracles, so silent heap corruption in the unsafe storage code becomes a crash; non-trivial as in the proptest part; counts come from the target";

pub fn c04() -> Property {
    Property {
        id: "C04",
        subs: vec![SubCheck { name: "fuzz", shards: |t: Tier| t.pick(0, 4), run: c04_fuzz, replay: replay_seq, rule: FUZZ_RULE, exe_env: None }, SubCheck {
            name: "sequences",
            shards: |t: Tier| t.pick(8, 16),
            run: c04_run,
            replay: replay_seq,
            rule: "proptest sequences (<=60 ops quick, <=300 thorough) of insert/overwrite/get/get_mut/remove/contains/entry family (or_insert, or_insert_with, replace, occupied get/get_mut/insert/remove/into_mut, vacant insert)/entries() lend-join/get_mut_or_default/drain (full and partial)/clear/joins/restricted joins/slice writes/entity deletion and creation, over dense, sparse and layer-straddling entity pools, for each of the 18 storage configurations (6 plain kinds, FlaggedStorage and DerefFlaggedStorage over each of the 6); oracle: BTreeMap differential (return values, mask, count, is_empty, every lookup, slice views) after every step; non-trivial = a remove/drain/clear followed by a later insert and >= 3 distinct indices", exe_env: None
        }],
        crash_is_violation: true,
        assumptions: &["BTreeMap reference model in harness/src/stoseq.rs", "hibitset and shred trusted"],
    }
}

// --------------------------------------------------------------------------- C08

fn c08_seq_run(ctx: &ShardCtx) -> ShardResult {
    let max_ops = ctx.tier.pick(50, 250);
    let cases = ctx.tier.pick(6000, 100_000);
    run_proptest(ctx, stoseq::case_strategy(stoseq::all_kinds(), stoseq::C04_PROFILE, max_ops), cases, 8, |c, stats| {
        let mode = Mode { diff_tag: "C04", check_events: false, fault_at: None, bomb: Bomb::None , ledger_only: true, events_only: false };
        let f = stoseq::run_case_dyn(c, &mode)?;
        label(stats, c, &f);
        if f.diverged_from_model > 0 {
            stats.label("diverged_from_map_model_but_continued");
        }
        stats.case(c, f.overwrite_or_remove && f.entity_deletion_with_comp && f.live_at_teardown > 0);
        Ok(())
    })
}

fn c08_replay_seq(v: &Value) -> Verdict {
    let c: SeqCase = parse_case("seq", v)?;
    let mode = Mode { diff_tag: "C04", check_events: false, fault_at: None, bomb: Bomb::None, ledger_only: true, events_only: false };
    stoseq::run_case_dyn(&c, &mode).map(|_| ())
}

fn c08_hist_run(ctx: &ShardCtx) -> ShardResult {
    let max_ops = ctx.tier.pick(40, 150);
    let cases = ctx.tier.pick(6000, 80_000);
    run_proptest(ctx, hist::history_strategy(hist::MIXED_PROFILE, max_ops), cases, 9, |h, stats| {
        let (f, _) = hist::run_history(h, false)?;
        if f.lazy_actions_run > 0 {
            stats.label("lazy_actions_run");
        }
        if f.multi_storage_death > 0 {
            stats.label("multi_storage_death");
        }
        if f.live_comps_at_teardown > 0 {
            stats.label("live_comps_at_teardown");
        }
        stats.case(h, f.overwrite_or_remove > 0 && f.multi_storage_death > 0 && f.live_comps_at_teardown > 0);
        Ok(())
    })
}

fn replay_hist(v: &Value) -> Verdict {
    let h: hist::History = parse_case("hist", v)?;
    hist::run_history(&h, false).map(|_| ())
}

pub fn c08() -> Property {
    Property {
        id: "C08",
        subs: vec![
            SubCheck {
                name: "sequences",
                shards: |t: Tier| t.pick(6, 16),
                run: c08_seq_run,
                replay: c08_replay_seq,
                rule: "single-storage sequences as C04 over all 21 configurations (incl. three component types without drop glue, zero-sized components in NullStorage and placeholder slots of DefaultVecStorage), every component value instrumented with a serial + canary; ledger invariant after every step and after dropping the world: no serial destroyed twice, every value read through get/join/slice is live with an intact canary, nothing left alive at the end; non-trivial = an overwrite or remove, a deletion of an entity holding a component, and live components at world drop", exe_env: None
            },
            SubCheck {
                name: "histories",
                shards: |t: Tier| t.pick(6, 16),
                run: c08_hist_run,
                replay: replay_hist,
                rule: "world histories (hist.rs, mixed profile) with builders, lazy insert / insert_all / lazy builders (executed, or dropped with the world before maintain), entity deletion through all paths over 2..6 storages; same ledger invariant; non-trivial = overwrite/remove + death of an entity with >= 2 components + live components at world drop", exe_env: None
            },
            crate::props_join::c08_changeset_sub(),
            SubCheck { name: "fuzz", shards: |t: Tier| t.pick(0, 4), run: c08_fuzz, replay: c08_replay_seq, rule: FUZZ_RULE, exe_env: None },
        ],
        crash_is_violation: true,
        assumptions: &["the ledger (thread-local, serial + canary per value) observes every construction and destruction of component values"],
    }
}

// --------------------------------------------------------------------------- C12

const C12_MODE: Mode = Mode { diff_tag: "C04", check_events: true, fault_at: None, bomb: Bomb::None, ledger_only: false, events_only: true };

fn c12_replay(v: &Value) -> Verdict {
    let c: SeqCase = parse_case("seq", v)?;
    stoseq::run_case_dyn(&c, &C12_MODE).map(|_| ())
}

fn c12_body(ctx: &ShardCtx, salt: u64) -> ShardResult {
    let max_ops = ctx.tier.pick(50, 250);
    let cases = ctx.tier.pick(8000, 100_000);
    run_proptest(ctx, stoseq::case_strategy(stoseq::tracked_kinds(), stoseq::C12_PROFILE, max_ops), cases, salt, |c, stats| {
        let mode = C12_MODE;
        let f = stoseq::run_case_dyn(c, &mode)?;
        label(stats, c, &f);
        if f.diverged_from_model > 0 {
            stats.label("diverged_from_map_model_but_continued");
        }
        stats.case(c, (f.entity_deletion_with_comp || f.drain_tracked) && f.partial_mutable_access);
        Ok(())
    })
}

fn c12_run(ctx: &ShardCtx) -> ShardResult {
    c12_body(ctx, 12)
}

fn c12_run_nosec(ctx: &ShardCtx) -> ShardResult {
    c12_body(ctx, 13)
}

pub fn c12() -> Property {
    const RULE: &str = "sequences without clear() over FlaggedStorage and DerefFlaggedStorage, each over all six inner kinds (Vec, DenseVec, DefaultVec, HashMap, BTree, Null with a zero-sized component); a reader registered first is read after every operation: Inserted/Removed events must equal the model's list exactly (multiset per operation), Modified(i) must appear when the caller received (Flagged) / actually dereferenced or overwrote (DerefFlagged) mutable access to i and may only appear for such i (or where the library takes access internally: replace on a vacant entry); nothing while emission is off; a second never-drained reader is replayed at the end against the final mask; non-trivial = an entity deletion or drain of a tracked component and a partial mutable access (some items of a join fetched mutably, some not)";
    Property {
        id: "C12",
        subs: vec![
            SubCheck { name: "tracked", shards: |t: Tier| t.pick(6, 12), run: c12_run, replay: c12_replay, rule: RULE, exe_env: None },
            SubCheck { name: "tracked-nosec", shards: |t: Tier| t.pick(4, 8), run: c12_run_nosec, replay: c12_replay,
                rule: "the same check from a second build of specs without the storage-event-control feature (emit_event() is a different function there; emission toggling is skipped)", exe_env: Some("VERIF_NOSEC_BIN") },
        ],
        crash_is_violation: false,
        assumptions: &["shrev EventChannel delivers events in write order and grows instead of overwriting unread events", "multiplicity of Modified events is not asserted"],
    }
}

// --------------------------------------------------------------------------- C19

#[derive(Clone, Debug, Serialize, Deserialize, Hash, PartialEq, Eq)]
pub struct FaultCase {
    pub seq: SeqCase,
    /// index of the destroying operation inside seq.ops
    pub at: usize,
    /// which destructor call panics: Some(serial) or the k-th zero-sized drop
    pub serial: Option<u64>,
    pub zst_ordinal: Option<u64>,
}

fn destroying_op() -> impl Strategy<Value = SOp> {
    use stoseq::DelHow::*;
    prop_oneof![
        4 => Just(SOp::Clear),
        3 => Just(SOp::DeleteAll),
        3 => (any::<u16>(), prop_oneof![Just(Now), Just(BatchWithNext), Just(FailingBatch), Just(AtomicMaintain)]).prop_map(|(s, h)| SOp::DeleteEntity(s, h)),
        3 => Just(SOp::DropWorld),
        2 => (any::<u16>(), 1u32..1000).prop_map(|(s, p)| SOp::Insert(s, p)),
        1 => any::<u16>().prop_map(SOp::Remove),
        2 => any::<u16>().prop_map(SOp::GenericRemove),
        2 => proptest::option::of(0u8..4).prop_map(SOp::Drain),
        2 => (proptest::option::of(0u8..4), any::<bool>(), proptest::collection::vec(any::<bool>(), 1..5)).prop_map(|(take, lend, filter)| SOp::DrainFiltered { take, lend, filter }),
        2 => (any::<u16>(), 1u32..1000).prop_map(|(s, p)| SOp::LazyInsertMaintain(s, p)),
        1 => (any::<u16>(), 1u32..1000).prop_map(|(s, p)| SOp::Replace(s, p)),
        1 => (any::<u16>(), 1u32..1000).prop_map(|(s, p)| SOp::OccInsert(s, p)),
    ]
}

fn fill_op() -> impl Strategy<Value = SOp> {
    // prefix: mostly insertions so that the destroying operation has something to destroy
    prop_oneof![
        12 => (any::<u16>(), 1u32..1000).prop_map(|(s, p)| SOp::Insert(s, p)),
        2 => any::<u16>().prop_map(SOp::Remove),
        2 => (any::<u16>(), 1u32..1000, any::<bool>()).prop_map(|(s, p, d)| SOp::GetOrDefault(s, p, d)),
        1 => Just(SOp::CreateEntity),
        1 => (any::<u16>(), Just(stoseq::DelHow::Now)).prop_map(|(s, h)| SOp::DeleteEntity(s, h)),
        2 => stoseq::sop_strategy(stoseq::C04_PROFILE),
    ]
}

type Proto = (SeqCase, usize);

fn proto_strategy(max_prefix: usize) -> impl Strategy<Value = Proto> {
    (
        proptest::sample::select(stoseq::all_kinds()),
        stoseq::pool_strategy(),
        proptest::collection::vec(fill_op(), 1..=max_prefix),
        destroying_op(),
        // the storage is used on after the caught panic: refills and removals dominate, so that internal
        // tables left inconsistent by the unwinding are walked again
        proptest::collection::vec(
            prop_oneof![
                5 => (any::<u16>(), 1u32..1000).prop_map(|(s, p)| SOp::Insert(s, p)),
                4 => any::<u16>().prop_map(SOp::Remove),
                1 => any::<u16>().prop_map(SOp::GenericRemove),
                4 => stoseq::sop_strategy(stoseq::C04_PROFILE),
            ],
            0..30,
        ),
    )
        .prop_map(|(kind, pool, mut ops, d, cont)| {
            let at = ops.len();
            ops.push(d);
            ops.extend(cont);
            (SeqCase { kind, pool, ops }, at)
        })
}

fn run_fault(fc: &FaultCase) -> Result<SeqFacts, Violation> {
    let bomb = match (fc.serial, fc.zst_ordinal) {
        (Some(s), _) => Bomb::Serial(s),
        (None, Some(o)) => Bomb::ZstOrdinal(o),
        _ => Bomb::None,
    };
    let mode = Mode { diff_tag: "C19", check_events: false, fault_at: Some(fc.at), bomb, ledger_only: false, events_only: false };
    stoseq::run_case_dyn(&fc.seq, &mode)
}

fn c19_run(ctx: &ShardCtx) -> ShardResult {
    // thorough: many short-lived workers (runs that panic inside the world's own drop leak memory by design)
    let cases = ctx.tier.pick(1200, 5_000);
    let max_prefix = ctx.tier.pick(20, 60);
    run_proptest(ctx, proto_strategy(max_prefix), cases, 19, |(seq, at), stats| c19_proto(seq, at, stats))
}

/// One generated (prefix, destroying operation, continuation): dry run, then one run per fault point.
pub fn c19_proto(seq: &SeqCase, at: &usize, stats: &mut Stats) -> Verdict {
    {
        // dry run: which values does the destroying operation destroy?
        let mut dry = seq.clone();
        dry.ops.truncate(*at + 1);
        let mode = Mode { diff_tag: "C19", check_events: false, fault_at: None, bomb: Bomb::None , ledger_only: false, events_only: false };
        let f = stoseq::run_case_dyn(&dry, &mode)?;
        let serials = f.destroyed_in_last_op.clone();
        let nz = f.zst_destroyed_in_last_op;
        let total = serials.len() as u64 + nz;
        if total == 0 {
            stats.label("destroying_op_destroyed_nothing");
            stats.evaluations += if stats.frozen { 0 } else { 1 };
            return Ok(());
        }
        stats.label(&format!("op.{}", op_name(&seq.ops[*at])));
        stats.label(&format!("kind.{:?}", seq.kind));
        // every fault point of this operation (bounded at 24, first and last always included)
        let mut points: Vec<(Option<u64>, Option<u64>)> = serials.iter().map(|s| (Some(*s), None)).collect();
        points.extend((1..=nz).map(|o| (None, Some(o))));
        // A destructor panic while the *world* is dropped makes shred's resource table leak whatever it had
        // not dropped yet (allowed: C19 is about double drops and stale reads, and the statement says a
        // panicking destructor may leak). In worlds of half a million entities that is megabytes per
        // run, so those get fewer fault points.
        let cap = if matches!(seq.ops[*at], SOp::DropWorld) && matches!(seq.pool, stoseq::Pool::Layered { .. }) { 4 } else { 24 };
        if points.len() > cap {
            let n = points.len();
            let mut keep: Vec<(Option<u64>, Option<u64>)> = (0..cap).map(|i| points[i * (n - 1) / (cap - 1)]).collect();
            keep.dedup();
            points = keep;
            stats.label("fault_points_capped");
        }
        for (k, (serial, zo)) in points.iter().enumerate() {
            let fc = FaultCase { seq: seq.clone(), at: *at, serial: *serial, zst_ordinal: *zo };
            let r = run_fault(&fc);
            match r {
                Ok(f) => {
                    if f.bomb_fired {
                        stats.label("panic_caught");
                    } else {
                        stats.label("bomb_did_not_fire");
                    }
                    if f.leaked_after_panic > 0 {
                        stats.label("leak_after_panic_allowed");
                    }
                    stats.case(&fc, total >= 2 && (k > 0 || points.len() > 1) && f.bomb_fired);
                }
                Err(mut v) => {
                    // report the concrete fault case, not the prototype
                    v.msg = format!("{} [fault case: destructor #{} of {} in {:?}; replay with {{\"seq\":..,\"at\":{},\"serial\":{:?},\"zst_ordinal\":{:?}}}]", v.msg, k + 1, points.len(), seq.ops[*at], at, serial, zo);
                    return Err(v);
                }
            }
        }
        Ok(())
    }
}

fn op_name(op: &SOp) -> &'static str {
    match op {
        SOp::Clear => "clear",
        SOp::DeleteAll => "delete_all",
        SOp::DeleteEntity(_, h) => match h {
            stoseq::DelHow::Now => "delete_entity",
            stoseq::DelHow::BatchWithNext => "delete_entities",
            stoseq::DelHow::FailingBatch => "delete_entities_failing",
            stoseq::DelHow::AtomicMaintain => "maintain_with_pending_delete",
        },
        SOp::DropWorld => "drop_world",
        SOp::Insert(..) => "insert_overwrite",
        SOp::Remove(..) => "remove",
        SOp::GenericRemove(..) => "generic_remove",
        SOp::Drain(..) | SOp::DrainFiltered { .. } => "drain",
        SOp::LazyInsertMaintain(..) => "lazy_insert_maintain",
        SOp::Replace(..) => "entry_replace",
        SOp::OccInsert(..) => "entry_insert",
        _ => "other",
    }
}

fn c19_replay(v: &Value) -> Verdict {
    // a replay is either a prototype (seq, at) -> all fault points, or one fault case
    if v.get("serial").is_some() || v.get("zst_ordinal").is_some() {
        let fc: FaultCase = parse_case("fault", v)?;
        return run_fault(&fc).map(|_| ());
    }
    // a prototype: the same (capped) set of fault points as the generated run
    let (seq, at): Proto = parse_case("fault-proto", v)?;
    let mut stats = Stats::default();
    c19_proto(&seq, &at, &mut stats)
}

pub fn c19() -> Property {
    Property {
        id: "C19",
        subs: vec![
            SubCheck {
                name: "faults",
                shards: |t: Tier| t.pick(8, 64),
                run: c19_run,
                replay: c19_replay,
                rule: "generated prefix (<=20 ops quick, <=60 thorough) + one destroying operation (clear, delete_all, delete_entity, delete_entities incl. failing batch, maintain with a pending deletion, overwrite, remove, GenericWriteStorage::remove, drain, lazy insert + maintain, entry replace/insert, dropping the world) over all 21 storage configurations; a dry run lists the values the operation destroys, then the identical run is repeated once per such value (all of them, capped at 24 - 4 for the drop of a half-million-entity world - spread evenly incl. first and last) with that value's destructor panicking; after catch_unwind: no serial destroyed twice, every value visible through get/join/slices (this storage and an auxiliary one) is live with an intact canary, the model is re-synchronised from the observable state and a generated continuation of up to 30 ordinary operations (biased to refills and removals) is checked differentially, then the world is dropped (again: no double destruction); leaks after the panic are only counted; non-trivial = the operation destroys >= 2 values and the panic was caught", exe_env: None
            },
            crate::props_join::c19_changeset_sub(),
        ],
        crash_is_violation: true,
        assumptions: &["exactly one destructor panics per run (a second panic during unwinding aborts by language rules)", "which components survive a destructor panic is not asserted"],
    }
}

// --------------------------------------------------------------------------- C13

fn c13_seq_run(ctx: &ShardCtx) -> ShardResult {
    let max_ops = ctx.tier.pick(40, 150);
    let cases = ctx.tier.pick(2000, 60_000);
    run_proptest(ctx, stoseq::restrict_case_strategy(max_ops), cases, 31, |c, stats| {
        let f = stoseq::run_case_dyn(c, &NORMAL)?;
        label(stats, c, &f);
        stats.case(c, f.partial_mutable_access && f.distinct_indices >= 3);
        Ok(())
    })
}

fn c13_hist_eval(h: &hist::History) -> Result<hist::Facts, Violation> {
    match hist::run_history(h, false) {
        Ok((f, _)) => Ok(f),
        Err(mut v) => {
            // other entities' components disturbed by get_other_mut show up in the state comparison
            if v.prop == "C05" && h.ops.iter().any(|o| matches!(o, hist::Op::RestrictOther(..))) {
                v.prop = "C13".to_string();
            }
            // a dead handle accepted by get_other breaks C13's "same aliveness rules" clause too
            if v.prop == "C03" && v.signature == "stale-get_other" {
                v.prop = "C13".to_string();
            }
            Err(v)
        }
    }
}

fn c13_hist_run(ctx: &ShardCtx) -> ShardResult {
    let max_ops = ctx.tier.pick(40, 120);
    let cases = ctx.tier.pick(4000, 50_000);
    run_proptest(ctx, hist::history_strategy(hist::RESTRICT_PROFILE, max_ops), cases, 32, |h, stats| {
        let f = c13_hist_eval(h)?;
        if f.restrict_other_live > 0 {
            stats.label("get_other_live");
        }
        if f.restrict_other_stale > 0 {
            stats.label("get_other_stale");
        }
        stats.case(h, f.restrict_other_live > 0 && f.restrict_other_stale > 0);
        Ok(())
    })
}

fn c13_hist_replay(v: &Value) -> Verdict {
    let h: hist::History = parse_case("hist", v)?;
    c13_hist_eval(&h).map(|_| ())
}

pub fn c13() -> Property {
    let mut subs = vec![
        SubCheck {
            name: "restricted-sequences",
            shards: |t: Tier| t.pick(6, 12),
            run: c13_seq_run,
            replay: replay_seq,
            rule: "sequences over all 21 storage configurations that change the content (insert, remove, entity deletion / creation, emission toggling) interleaved with restricted joins: lend_join (PairedStorageWriteExclusive) and join (PairedStorageWriteShared) over &mut restrict_mut() with a generated subset of items fetched mutably and written; visited items == storage members in order, item.get() == map value, afterwards the full storage equals the map (only the chosen entities changed, mask unchanged) and on tracked storages the Modified events are exactly the mutably fetched set; non-trivial = >= 3 distinct indices and a strict non-empty subset fetched mutably",
            exe_env: None,
        },
        SubCheck {
            name: "restricted-histories",
            shards: |t: Tier| t.pick(4, 8),
            run: c13_hist_run,
            replay: c13_hist_replay,
            rule: "world histories (creations, deletions through all paths, maintain, storage ops) with many get_other / get_other_mut lookups through PairedStorageRead and PairedStorageWriteExclusive items for live members, live non-members, dead handles and stale handles whose index is occupied again; the lookup must follow the storage's own aliveness and membership rules; non-trivial = a history with both a live and a dead/stale lookup",
            exe_env: None,
        },
    ];
    subs.extend(crate::props_join::c13_subs());
    Property {
        id: "C13",
        subs,
        crash_is_violation: true,
        assumptions: &["map / timeline models of stoseq.rs, hist.rs and joinworld.rs"],
    }
}
