//! C10: concurrent creation / deletion / lazy queuing under an owned schedule.
//!
//! Real OS threads are serialised by a baton; a thread only runs between two
//! yield points (the cfg(specs_verif) hooks inside the lock-free paths plus
//! operation boundaries), and the next thread to run is a generated decision.

use std::{
    collections::{BTreeSet, HashSet},
    panic::{catch_unwind, AssertUnwindSafe},
    sync::{Arc, Condvar, Mutex},
    time::Duration,
};

use proptest::prelude::*;
use serde::{Deserialize, Serialize};
use serde_json::Value;
use specs::prelude::*;

use crate::{
    engine::{parse_case, run_list, run_proptest, Property, ShardCtx, ShardResult, Stats, SubCheck, Tier, Verdict, Violation},
    ensure,
};

#[derive(Clone, Debug, PartialEq)]
pub struct CV(pub u32);
impl Component for CV {
    type Storage = VecStorage<Self>;
}

#[derive(Clone, Debug, Serialize, Deserialize, Hash, PartialEq, Eq)]
pub enum COp {
    Create,
    CreateIter(u8),
    DeleteInitial(u8),
    DeleteOwn(u8),
    IsAliveInitial(u8),
    Join,
    LazyExec,
    LazyInsertInitial(u8, u32),
    LazyInsertOwn(u8, u32),
    LazyCreate(u32),
    /// join over the entities, then is_alive of every delivered handle
    JoinProbe,
    /// request deletion of a handle delivered by a join (counted from the end)
    DeleteJoined(u8),
}

#[derive(Clone, Debug, Serialize, Deserialize, Hash, PartialEq, Eq)]
pub struct ConcCase {
    /// live entities before the threads start
    pub init: u8,
    /// indices on the free list before the threads start
    pub free: u8,
    pub threads: Vec<Vec<COp>>,
    /// decisions: index into [current thread (if it can continue), other runnable threads ascending]
    pub choices: Vec<u8>,
}

// ---------------------------------------------------------------------------
// scheduler

struct SState {
    current: Option<usize>,
    runnable: Vec<bool>,
    choices: Vec<u8>,
    pos: usize,
    /// (chosen option, number of options, deciding thread could continue) per decision
    trace: Vec<(u8, u8, bool)>,
    preempt_in_cas_window: u32,
    preemptions: u32,
    sites: BTreeSet<&'static str>,
    stuck: bool,
}

struct Sched {
    m: Mutex<SState>,
    cv: Condvar,
}

impl Sched {
    fn new(n: usize, choices: Vec<u8>) -> Sched {
        Sched {
            m: Mutex::new(SState {
                current: None,
                runnable: vec![true; n],
                choices,
                pos: 0,
                trace: vec![],
                preempt_in_cas_window: 0,
                preemptions: 0,
                sites: BTreeSet::new(),
                stuck: false,
            }),
            cv: Condvar::new(),
        }
    }

    /// Picks the next thread; `me` = the deciding thread if it can continue.
    fn decide(st: &mut SState, me: Option<usize>, site: &'static str) {
        let mut options: Vec<usize> = vec![];
        if let Some(t) = me {
            options.push(t);
        }
        for (t, r) in st.runnable.iter().enumerate() {
            if *r && Some(t) != me {
                options.push(t);
            }
        }
        if options.is_empty() {
            st.current = None;
            return;
        }
        // a choice is consumed only where there is something to choose
        let c = if options.len() > 1 {
            let c = st.choices.get(st.pos).cloned().unwrap_or(0) as usize % options.len();
            st.pos += 1;
            c
        } else {
            0
        };
        let next = options[c];
        let preempt = me.is_some() && Some(next) != me;
        if options.len() > 1 {
            // (chosen, number of options, the deciding thread could have continued)
            st.trace.push((c as u8, options.len() as u8, me.is_some()));
        }
        if preempt {
            st.preemptions += 1;
            if site.ends_with(".cas") || site.starts_with("allocate_atomic.") || site == "kill_atomic.add" {
                st.preempt_in_cas_window += 1;
            }
        }
        st.current = Some(next);
    }

    fn wait_turn(&self, me: usize) {
        let mut st = self.m.lock().unwrap();
        while st.current != Some(me) {
            let (g, to) = self.cv.wait_timeout(st, Duration::from_secs(20)).unwrap();
            st = g;
            if to.timed_out() && st.current != Some(me) {
                st.stuck = true;
                st.current = Some(me);
            }
        }
    }

    fn yield_point(&self, me: usize, site: &'static str) {
        {
            let mut st = self.m.lock().unwrap();
            st.sites.insert(site);
            Self::decide(&mut st, Some(me), site);
            if st.current == Some(me) {
                return;
            }
        }
        self.cv.notify_all();
        self.wait_turn(me);
    }

    fn finish(&self, me: usize) {
        {
            let mut st = self.m.lock().unwrap();
            st.runnable[me] = false;
            Self::decide(&mut st, None, "finish");
        }
        self.cv.notify_all();
    }

    fn start(&self) {
        {
            let mut st = self.m.lock().unwrap();
            Self::decide(&mut st, None, "start");
        }
        self.cv.notify_all();
    }
}

// ---------------------------------------------------------------------------
// one execution

#[derive(Default, Debug)]
struct ThreadLog {
    created: Vec<Entity>,
    lazy_created: Vec<(Entity, u32)>,
    not_alive_after_create: Vec<Entity>,
    deletes: Vec<(Entity, bool)>,
    alive_probes: Vec<(Entity, bool)>,
    joined_probes: Vec<(Entity, bool)>,
    joins: Vec<Vec<Entity>>,
    lazy_execs: Vec<u32>,
    lazy_inserts: Vec<(Entity, u32)>,
    panic: Option<String>,
}

pub struct Outcome {
    pub trace: Vec<(u8, u8, bool)>,
    pub preemptions: u32,
    pub contended: bool,
    pub sites: BTreeSet<&'static str>,
}

fn vio(sig: &str, msg: String) -> Violation {
    Violation::new("C10", sig, msg)
}

pub fn run_once(case: &ConcCase, choices: &[u8]) -> Result<Outcome, Violation> {
    let mut world = World::new();
    world.register::<CV>();
    let n_init = case.init.clamp(1, 4) as usize;
    let n_free = case.free.min(3) as usize;
    let initial: Vec<Entity> = world.create_iter().take(n_init).collect();
    let extra: Vec<Entity> = world.create_iter().take(n_free).collect();
    if !extra.is_empty() {
        world.delete_entities(&extra).unwrap();
    }
    world.maintain();
    let nthreads = case.threads.len().clamp(1, 4);
    let sched = Arc::new(Sched::new(nthreads, choices.to_vec()));
    let exec_log: Arc<Mutex<Vec<u32>>> = Arc::new(Mutex::new(vec![]));
    let logs: Vec<Mutex<ThreadLog>> = (0..nthreads).map(|_| Mutex::new(ThreadLog::default())).collect();
    {
        let world = &world;
        let initial = &initial;
        let logs = &logs;
        std::thread::scope(|s| {
            for (tid, prog) in case.threads.iter().take(nthreads).enumerate() {
                let sched = sched.clone();
                let exec_log = exec_log.clone();
                s.spawn(move || {
                    let hook_sched = sched.clone();
                    specs::verif::set_yield_hook(Some(Box::new(move |site| hook_sched.yield_point(tid, site))));
                    sched.wait_turn(tid);
                    let mut log = ThreadLog::default();
                    let r = catch_unwind(AssertUnwindSafe(|| {
                        let ents = world.entities();
                        let lazy = world.read_resource::<LazyUpdate>();
                        for (k, op) in prog.iter().enumerate() {
                            if k > 0 {
                                sched.yield_point(tid, "op-boundary");
                            }
                            match op {
                                COp::Create => {
                                    let e = ents.create();
                                    if !ents.is_alive(e) {
                                        log.not_alive_after_create.push(e);
                                    }
                                    log.created.push(e);
                                }
                                COp::CreateIter(n) => {
                                    for e in ents.create_iter().take(*n as usize % 3 + 1) {
                                        if !ents.is_alive(e) {
                                            log.not_alive_after_create.push(e);
                                        }
                                        log.created.push(e);
                                    }
                                }
                                COp::DeleteInitial(i) => {
                                    let e = initial[*i as usize % initial.len()];
                                    log.deletes.push((e, ents.delete(e).is_ok()));
                                }
                                COp::DeleteOwn(i) => {
                                    if !log.created.is_empty() {
                                        let e = log.created[*i as usize % log.created.len()];
                                        log.deletes.push((e, ents.delete(e).is_ok()));
                                    }
                                }
                                COp::IsAliveInitial(i) => {
                                    let e = initial[*i as usize % initial.len()];
                                    log.alive_probes.push((e, ents.is_alive(e)));
                                }
                                COp::Join => {
                                    log.joins.push((&*ents).join().collect());
                                }
                                COp::JoinProbe => {
                                    // sequential and parallel flavour of the entity join alternate
                                    let j: Vec<Entity> = if (tid + k) % 2 == 0 {
                                        (&*ents).join().collect()
                                    } else {
                                        use specs::rayon::iter::ParallelIterator;
                                        (&*ents).par_join().collect()
                                    };
                                    for e in &j {
                                        log.joined_probes.push((*e, ents.is_alive(*e)));
                                    }
                                    log.joins.push(j);
                                }
                                COp::DeleteJoined(i) => {
                                    let j: Vec<Entity> = (&*ents).join().collect();
                                    if !j.is_empty() {
                                        let e = j[j.len() - 1 - (*i as usize % j.len())];
                                        log.deletes.push((e, ents.delete(e).is_ok()));
                                    }
                                    log.joins.push(j);
                                }
                                COp::LazyExec => {
                                    let id = (tid * 100 + k) as u32;
                                    let l = exec_log.clone();
                                    lazy.exec(move |_| l.lock().unwrap().push(id));
                                    log.lazy_execs.push(id);
                                }
                                COp::LazyInsertInitial(i, v) => {
                                    let e = initial[*i as usize % initial.len()];
                                    lazy.insert(e, CV(*v));
                                    log.lazy_inserts.push((e, *v));
                                }
                                COp::LazyInsertOwn(i, v) => {
                                    if !log.created.is_empty() {
                                        let e = log.created[*i as usize % log.created.len()];
                                        lazy.insert(e, CV(*v));
                                        log.lazy_inserts.push((e, *v));
                                    }
                                }
                                COp::LazyCreate(v) => {
                                    let e = lazy.create_entity(&ents).with(CV(*v)).build();
                                    if !ents.is_alive(e) {
                                        log.not_alive_after_create.push(e);
                                    }
                                    log.created.push(e);
                                    log.lazy_created.push((e, *v));
                                }
                            }
                        }
                    }));
                    if r.is_err() {
                        log.panic = Some(crate::engine::take_last_panic().unwrap_or_else(|| "?".into()));
                    }
                    specs::verif::set_yield_hook(None);
                    *logs[tid].lock().unwrap() = log;
                    sched.finish(tid);
                });
            }
            sched.start();
        });
    }
    let (trace, preemptions, contended, sites, stuck) = {
        let st = sched.m.lock().unwrap();
        (st.trace.clone(), st.preemptions, st.preempt_in_cas_window > 0, st.sites.clone(), st.stuck)
    };
    if stuck {
        return Err(Violation::new("INFRA", "scheduler-stuck", "the owned scheduler timed out waiting for a thread".to_string()));
    }
    let logs: Vec<ThreadLog> = logs.into_iter().map(|m| m.into_inner().unwrap()).collect();
    let sched_desc = || format!("schedule {:?}", trace.iter().map(|t| t.0).collect::<Vec<_>>());
    let _ = preemptions;
    // per-thread observations
    let mut all_created: Vec<Entity> = vec![];
    let mut seen: HashSet<Entity> = initial.iter().cloned().collect();
    let mut idx_seen: HashSet<u32> = initial.iter().map(|e| e.id()).collect();
    let mut delete_requested: HashSet<Entity> = HashSet::new();
    for (tid, l) in logs.iter().enumerate() {
        if let Some(p) = &l.panic {
            return Err(vio("panic", format!("thread {} panicked: {} ({})", tid, p, sched_desc())));
        }
        for e in &l.not_alive_after_create {
            return Err(vio("not-alive-after-create", format!("thread {}: {:?} was not alive for its creator right after creation ({})", tid, e, sched_desc())));
        }
        for e in &l.created {
            ensure!("C10", "duplicate-handle", seen.insert(*e), "handle {:?} was handed out twice / equals an initial entity ({})", e, sched_desc());
            ensure!("C10", "index-shared", idx_seen.insert(e.id()), "index {} was handed out to two entities that are both not yet dead ({})", e.id(), sched_desc());
            all_created.push(*e);
        }
        for (e, ok) in &l.deletes {
            ensure!("C10", "delete-refused", *ok, "thread {}: Entities::delete({:?}) of a live entity failed ({})", tid, e, sched_desc());
            delete_requested.insert(*e);
        }
        for (e, a) in &l.alive_probes {
            ensure!("C10", "initial-not-alive", *a, "thread {}: initial entity {:?} reported dead before maintain ({})", tid, e, sched_desc());
        }
        for (e, a) in &l.joined_probes {
            ensure!("C10", "joined-not-alive", *a, "thread {}: {:?} was delivered by (&entities).join() but is_alive reported it dead before maintain ({})", tid, e, sched_desc());
        }
        for j in &l.joins {
            let set: HashSet<Entity> = j.iter().cloned().collect();
            ensure!("C10", "join-duplicates", set.len() == j.len(), "thread {}: (&entities).join() yielded a duplicate: {:?} ({})", tid, j, sched_desc());
            for e in initial.iter() {
                ensure!("C10", "join-missing-initial", set.contains(e), "thread {}: (&entities).join() misses the initial entity {:?} ({})", tid, e, sched_desc());
            }
        }
    }
    // C17 under contention: nothing is recycled before maintain, so the free list only shrinks and a
    // never-used index may be taken only once it is exhausted
    let fresh = all_created.iter().filter(|e| e.id() as usize >= n_init + n_free).count();
    let expected_fresh = all_created.len().saturating_sub(n_free);
    ensure!("C17", "fresh-index-while-free", fresh == expected_fresh,
        "{} entities were created with {} indices on the free list, but {} of them got a never-used index (expected {}): created {:?} ({})",
        all_created.len(), n_free, fresh, expected_fresh, all_created, sched_desc());
    // nothing ran before maintain
    ensure!("C09", "ran-before-maintain", exec_log.lock().unwrap().is_empty(), "lazy closures ran before maintain");
    world.maintain();
    let ents = world.entities();
    let expect_alive: BTreeSet<Entity> = initial.iter().chain(all_created.iter()).filter(|e| !delete_requested.contains(e)).cloned().collect();
    let got: BTreeSet<Entity> = (&*ents).join().collect();
    if got != expect_alive {
        let lost: Vec<&Entity> = expect_alive.difference(&got).collect();
        let extra: Vec<&Entity> = got.difference(&expect_alive).collect();
        return Err(vio(if !lost.is_empty() { "entity-lost" } else { "deletion-lost" }, format!(
            "after maintain the alive set lacks {:?} and additionally contains {:?} (initial {:?}, created {:?}, delete requested {:?}; {})",
            lost, extra, initial, all_created, delete_requested, sched_desc())));
    }
    for e in initial.iter().chain(all_created.iter()) {
        ensure!("C10", "aliveness-after-maintain", ents.is_alive(*e) == expect_alive.contains(e), "after maintain is_alive({:?}) = {} ({})", e, ents.is_alive(*e), sched_desc());
    }
    for (kind, msg) in ents.verif_check() {
        return Err(vio("allocator-corrupt", format!("allocator self-check after maintain ({}): {} ({})", kind, msg, sched_desc())));
    }
    // lazy actions: each exactly once
    let mut ran = exec_log.lock().unwrap().clone();
    ran.sort();
    let mut want: Vec<u32> = logs.iter().flat_map(|l| l.lazy_execs.iter().cloned()).collect();
    want.sort();
    ensure!("C10", "lazy-action-lost-or-duplicated", ran == want, "queued closures {:?}, executed {:?} ({})", want, ran, sched_desc());
    let st = world.read_storage::<CV>();
    for l in &logs {
        for (e, v) in &l.lazy_created {
            if expect_alive.contains(e) {
                // a later lazy insert for the same entity may legitimately overwrite the builder's value
                ensure!("C10", "lazy-builder-lost", st.get(*e).is_some(), "lazily built {:?} has no component, expected {} or a later queued value ({})", e, v, sched_desc());
            }
        }
        for (e, _) in &l.lazy_inserts {
            ensure!("C10", "lazy-insert-lost", st.get(*e).is_some() == expect_alive.contains(e), "lazy insert for {:?}: component present={} alive={} ({})", e, st.get(*e).is_some(), expect_alive.contains(e), sched_desc());
        }
    }
    // per-target: the value must be one of the queued ones
    for e in expect_alive.iter() {
        if let Some(c) = st.get(*e) {
            let queued: Vec<u32> = logs.iter().flat_map(|l| l.lazy_inserts.iter().chain(l.lazy_created.iter())).filter(|(x, _)| x == e).map(|(_, v)| *v).collect();
            ensure!("C10", "lazy-insert-wrong-target", queued.contains(&c.0), "{:?} carries {:?} which was never queued for it ({})", e, c, sched_desc());
        }
    }
    Ok(Outcome { trace, preemptions, contended, sites })
}

// ---------------------------------------------------------------------------
// generators

fn cop() -> impl Strategy<Value = COp> {
    prop_oneof![
        8 => Just(COp::Create),
        2 => (0u8..3).prop_map(COp::CreateIter),
        3 => any::<u8>().prop_map(COp::DeleteInitial),
        2 => any::<u8>().prop_map(COp::DeleteOwn),
        1 => any::<u8>().prop_map(COp::IsAliveInitial),
        1 => Just(COp::Join),
        1 => Just(COp::JoinProbe),
        1 => any::<u8>().prop_map(COp::DeleteJoined),
        2 => Just(COp::LazyExec),
        1 => (any::<u8>(), 1u32..100).prop_map(|(a, b)| COp::LazyInsertInitial(a, b)),
        1 => (any::<u8>(), 1u32..100).prop_map(|(a, b)| COp::LazyInsertOwn(a, b)),
        2 => (1u32..100).prop_map(COp::LazyCreate),
    ]
}

fn conc_case() -> impl Strategy<Value = ConcCase> {
    (
        1u8..4,
        0u8..4,
        proptest::collection::vec(proptest::collection::vec(cop(), 1..5), 2..5),
        proptest::collection::vec(prop_oneof![5 => Just(0u8), 4 => 1u8..4], 0..60),
    )
        .prop_map(|(init, free, threads, choices)| ConcCase { init, free, threads, choices })
}

fn label(stats: &mut Stats, case: &ConcCase, o: &Outcome) {
    if o.contended {
        stats.label("preempted_inside_cas_window");
    }
    stats.label(&format!("threads.{}", case.threads.len().min(4)));
    stats.label(&format!("free_list.{}", case.free.min(3)));
    stats.label_n("preemptions", o.preemptions as u64);
    for s in &o.sites {
        stats.label(&format!("site.{}", s));
    }
}

fn c10_random(ctx: &ShardCtx) -> ShardResult {
    let cases = ctx.tier.pick(5000, 100_000);
    run_proptest(ctx, conc_case(), cases, 10, |c, stats| {
        let o = run_once(c, &c.choices)?;
        label(stats, c, &o);
        let creates = c.threads.iter().filter(|t| t.iter().any(|o| matches!(o, COp::Create | COp::CreateIter(_) | COp::LazyCreate(_)))).count();
        stats.case(c, creates >= 2 && o.contended);
        Ok(())
    })
}

/// Small programs whose schedules are enumerated exhaustively up to a preemption bound.
fn catalogue() -> Vec<ConcCase> {
    use COp::*;
    let mut v = vec![];
    for free in 0..3u8 {
        let progs: Vec<Vec<Vec<COp>>> = vec![
            vec![vec![Create], vec![Create]],
            vec![vec![Create], vec![Create], vec![Create]],
            vec![vec![Create, Create], vec![Create]],
            vec![vec![Create], vec![DeleteInitial(0)], vec![Create]],
            vec![vec![Create, DeleteOwn(0)], vec![Create, Join]],
            vec![vec![LazyCreate(5)], vec![Create, LazyInsertOwn(0, 7)]],
            vec![vec![CreateIter(1)], vec![Create], vec![LazyExec, DeleteInitial(1)]],
            vec![vec![DeleteInitial(0)], vec![DeleteInitial(0), IsAliveInitial(0)], vec![Create]],
            vec![vec![Create], vec![JoinProbe]],
            vec![vec![Create], vec![DeleteJoined(0)], vec![LazyCreate(3)]],
        ];
        for p in progs {
            v.push(ConcCase { init: 2, free, threads: p, choices: vec![] });
        }
    }
    v
}

/// Enumerates all schedules of `case` with at most `bound` preemptions (capped).
fn enumerate(case: &ConcCase, bound: u32, cap: u64, stats: &mut Stats) -> Result<(u64, bool), (Violation, Vec<u8>)> {
    let mut prefix: Vec<u8> = vec![];
    let mut count = 0u64;
    loop {
        let o = run_once(case, &prefix).map_err(|v| (v, prefix.clone()))?;
        count += 1;
        if o.contended {
            stats.label("preempted_inside_cas_window");
        }
        // next schedule: the deepest decision that can still be advanced within the preemption bound.
        // At a yield point option 0 continues the deciding thread (free), every other option is a
        // preemption; decisions taken when a thread finished (or at the start) are free.
        let mut trace = o.trace.clone();
        let mut advanced = false;
        while let Some((c, n, could_continue)) = trace.pop() {
            if c + 1 < n {
                let used = trace.iter().filter(|t| t.2 && t.0 > 0).count() as u32;
                let cost = if could_continue { 1 } else { 0 };
                if used + cost <= bound {
                    prefix = trace.iter().map(|t| t.0).collect();
                    prefix.push(c + 1);
                    advanced = true;
                    break;
                }
            }
        }
        if !advanced {
            return Ok((count, true));
        }
        if count >= cap {
            return Ok((count, false));
        }
    }
}

fn c10_exhaustive(ctx: &ShardCtx) -> ShardResult {
    let bound = ctx.tier.pick(2, 3);
    let cap = ctx.tier.pick(4_000u64, 400_000u64);
    let mut all_exhaustive = true;
    let cases = catalogue();
    let mut res = run_list(ctx, cases.into_iter(), |c, stats| {
        match enumerate(c, bound, cap, stats) {
            Ok((n, complete)) => {
                if !complete {
                    all_exhaustive = false;
                    stats.label("enumeration_capped");
                }
                stats.evaluations += n.saturating_sub(1);
                stats.label_n("schedules", n);
                stats.case(c, true);
                Ok(())
            }
            Err((mut v, choices)) => {
                v.msg = format!("{} [program {:?}, replay choices {:?}]", v.msg, c.threads, choices);
                Err(v)
            }
        }
    });
    res.stats.exhaustive = Some(all_exhaustive);
    // make the failing schedule replayable
    if let Some(f) = res.failure.as_mut() {
        if let Some(start) = f.violation.msg.rfind("replay choices [") {
            let tail = &f.violation.msg[start + "replay choices [".len()..];
            if let Some(end) = tail.find(']') {
                let choices: Vec<u8> = tail[..end].split(',').filter_map(|x| x.trim().parse().ok()).collect();
                if let Ok(mut c) = serde_json::from_value::<ConcCase>(f.case.clone()) {
                    c.choices = choices;
                    f.case = serde_json::to_value(&c).unwrap_or(Value::Null);
                }
            }
        }
    }
    res
}

fn c10_replay(v: &Value) -> Verdict {
    let c: ConcCase = parse_case("conc", v)?;
    run_once(&c, &c.choices).map(|_| ())
}

/// Unscheduled stress on real threads (thorough tier): weak-memory effects are only sampled here.
fn c10_stress(ctx: &ShardCtx) -> ShardResult {
    let rounds = ctx.tier.pick(20, 400);
    let mut stats = Stats::default();
    for round in 0..rounds {
        let nthreads = [2usize, 4, 8, 16][round % 4];
        let per = ctx.tier.pick(300, 3000);
        let mut world = World::new();
        world.register::<CV>();
        let initial: Vec<Entity> = world.create_iter().take(64).collect();
        let extra: Vec<Entity> = world.create_iter().take(50).collect();
        world.delete_entities(&extra).unwrap();
        world.maintain();
        let burst = ctx.tier.pick(9000usize, 20000usize);
        let barrier = std::sync::Barrier::new(nthreads);
        let results: Vec<(Vec<Entity>, Vec<Entity>, u32, bool)> = {
            let world = &world;
            let initial = &initial;
            let barrier = &barrier;
            std::thread::scope(|s| {
                let hs: Vec<_> = (0..nthreads)
                    .map(|t| {
                        s.spawn(move || {
                            let ents = world.entities();
                            let lazy = world.read_resource::<LazyUpdate>();
                            let mut created = vec![];
                            let mut deleted = vec![];
                            let mut execs = 0u32;
                            let mut ok = true;
                            for k in 0..per {
                                if k % 16 == 5 {
                                    // whatever the entity join delivers is alive and can be deleted
                                    if k % 32 == 5 {
                                        for e in (&*ents).join() {
                                            ok &= ents.is_alive(e);
                                        }
                                    } else {
                                        use specs::rayon::iter::ParallelIterator;
                                        let all: Vec<Entity> = (&*ents).par_join().collect();
                                        for e in all {
                                            ok &= ents.is_alive(e);
                                        }
                                    }
                                }
                                match (k + t) % 5 {
                                    0 | 1 | 2 => {
                                        let e = ents.create();
                                        ok &= ents.is_alive(e);
                                        created.push(e);
                                    }
                                    3 => {
                                        if let Some(e) = created.get(k / 2).cloned() {
                                            if !deleted.contains(&e) {
                                                ok &= ents.delete(e).is_ok();
                                                deleted.push(e);
                                            }
                                        } else {
                                            let e = initial[(k * 7 + t) % initial.len()];
                                            ok &= ents.delete(e).is_ok();
                                            deleted.push(e);
                                        }
                                    }
                                    _ => {
                                        lazy.exec(|w| {
                                            *w.write_resource::<u64>() += 1;
                                        });
                                        execs += 1;
                                    }
                                }
                            }
                            // contended burst on the lazy queue through all entry points
                            barrier.wait();
                            for k in 0..burst {
                                match k % 4 {
                                    0 => lazy.exec(|w| {
                                        *w.write_resource::<u64>() += 1;
                                    }),
                                    1 => lazy.exec_mut(|w| {
                                        *w.write_resource::<u64>() += 1;
                                    }),
                                    2 => lazy.exec(|w| {
                                        *w.write_resource::<u64>() += 1;
                                    }),
                                    _ => {
                                        lazy.insert(initial[0], CV(1));
                                        continue;
                                    }
                                }
                                execs += 1;
                            }
                            (created, deleted, execs, ok)
                        })
                    })
                    .collect();
                hs.into_iter().map(|h| h.join().unwrap()).collect()
            })
        };
        world.insert(0u64);
        let mut seen: HashSet<Entity> = initial.iter().cloned().collect();
        let mut idx: HashSet<u32> = initial.iter().map(|e| e.id()).collect();
        let mut del: HashSet<Entity> = HashSet::new();
        let mut execs = 0u64;
        let mut violation = None;
        for (created, deleted, ex, ok) in &results {
            if !ok {
                violation = Some(vio("stress-local", "a handle was not alive after creation or a deletion of a live handle failed (real threads)".into()));
            }
            for e in created {
                if !seen.insert(*e) || !idx.insert(e.id()) {
                    violation = Some(vio("duplicate-handle", format!("real threads: {:?} handed out twice", e)));
                }
            }
            del.extend(deleted.iter().cloned());
            execs += *ex as u64;
        }
        world.maintain();
        let got: HashSet<Entity> = (&*world.entities()).join().collect();
        let want: HashSet<Entity> = seen.iter().filter(|e| !del.contains(e)).cloned().collect();
        if got != want {
            violation = Some(vio("entity-lost", format!("real threads: alive set after maintain has {} entities, expected {}", got.len(), want.len())));
        }
        if *world.read_resource::<u64>() != execs {
            violation = Some(vio("lazy-action-lost-or-duplicated", format!("real threads: {} closures queued, {} ran", execs, *world.read_resource::<u64>())));
        }
        if let Some((k, m)) = world.entities().verif_check().into_iter().next() {
            violation = Some(vio("allocator-corrupt", format!("real threads: allocator self-check ({}): {}", k, m)));
        }
        stats.case(&(ctx.seed, ctx.shard, round), true);
        stats.label(&format!("threads.{}", nthreads));
        if let Some(v) = violation {
            return ShardResult { stats, failure: Some(crate::engine::Failure { violation: v, case: serde_json::json!({"stress_round": round, "threads": nthreads}) }) };
        }
    }
    ShardResult { stats, failure: None }
}

fn stress_replay(_: &Value) -> Verdict {
    Err(Violation::new("INFRA", "not-replayable", "stress runs on real threads are not replayable from a file; re-run the check"))
}

/// C17 under concurrent creation: the same programs and schedules, judged by the recycling rule only.
pub fn c17_subs() -> Vec<SubCheck> {
    vec![
        SubCheck {
            name: "concurrent-exhaustive",
            shards: |t: Tier| t.pick(4, 8),
            run: c10_exhaustive,
            replay: c10_replay,
            rule: "the 30 small concurrent programs of C10, all schedules with at most 2 / 3 preemptions: the number of creations that received a never-used index must equal max(0, creations - free-list length) (nothing is recycled before maintain, so a fresh index is legitimate only once the free list is exhausted)",
            exe_env: None,
        },
        SubCheck {
            name: "concurrent-random",
            shards: |t: Tier| t.pick(4, 8),
            run: c10_random,
            replay: c10_replay,
            rule: "generated concurrent programs x generated schedules (as C10), same recycling rule; non-trivial = >= 2 creating threads and a preemption inside a load..CAS window",
            exe_env: None,
        },
    ]
}

pub fn c10() -> Property {
    Property {
        id: "C10",
        subs: vec![
            SubCheck {
                name: "bounded-exhaustive",
                shards: |t: Tier| t.pick(8, 16),
                run: c10_exhaustive,
                replay: c10_replay,
                rule: "30 small programs (2-3 threads x 1-2 operations from create / create_iter / delete / is_alive / join / is_alive and delete of joined handles / lazy exec / lazy insert / lazy builder, on worlds with 0, 1 or 2 indices on the free list): ALL sequentially consistent schedules with at most 2 (quick) / 3 (thorough) preemptions at the yield points inside allocate_atomic, kill_atomic, the two CAS loops, pop_atomic and LazyUpdate::exec are enumerated by re-execution under the owned baton scheduler (cap per program: 4000 / 400000); every program counts as one non-trivial case, evaluations = schedules executed",
                exe_env: None,
            },
            SubCheck {
                name: "random-schedules",
                shards: |t: Tier| t.pick(8, 16),
                run: c10_random,
                replay: c10_replay,
                rule: "generated programs (2-4 threads x 1-4 operations) x generated decision sequences for the owned scheduler; oracle per run: all handles pairwise distinct and distinct from the initial ones, no index shared, each handle alive for its creator on return, every delete of a live handle Ok, after maintain alive set == initial + created - delete-requested, every closure ran exactly once, lazy inserts / lazy builders applied to exactly their live targets, allocator self-check; non-trivial = >= 2 creating threads and a preemption inside a load..CAS / raise window",
                exe_env: None,
            },
            SubCheck {
                name: "stress",
                shards: |t: Tier| t.pick(2, 8),
                run: c10_stress,
                replay: stress_replay,
                rule: "un-scheduled stress on 2..16 real threads (x86-TSO only samples weak-memory behaviour): mixed create / delete / join+is_alive / lazy exec, then a barrier-started burst of 9000 (quick) / 20000 (thorough) pushes per thread (more than 65536 pending actions in one maintain with 8 and 16 threads) through exec, exec_mut and insert; same end-state oracle; every round is one case",
                exe_env: None,
            },
        ],
        crash_is_violation: false,
        assumptions: &[
            "interleavings are sequentially consistent at yield-point granularity; hibitset add_atomic and crossbeam SegQueue are atomic steps",
            "weak-memory reorderings of the Relaxed atomics are only sampled by the stress run",
        ],
    }
}
