//! C20: single-threaded behaviour is deterministic and replayable.

use std::process::{Command, Stdio};

use proptest::prelude::*;
use serde::{Deserialize, Serialize};
use serde_json::Value;

use crate::{
    engine::{parse_case, Property, ShardCtx, ShardResult, Stats, SubCheck, Tier, Verdict, Violation},
    hist::{self, History},
    props_save::{self, SaveCase},
    zoo::Kind,
};

#[derive(Clone, Debug, Serialize, Deserialize, Hash, PartialEq, Eq)]
pub enum DetCase {
    Hist(History),
    Save(SaveCase),
    Merge(props_save::MergeCase),
}

/// The transcript of one case, or the violation that stopped it.
pub fn transcript(case: &DetCase) -> Result<Vec<String>, Violation> {
    match case {
        DetCase::Hist(h) => hist::run_history(h, true).map(|(_, t)| t.unwrap_or_default()).map_err(|mut v| {
            // state leaking from one world into another is C20's business
            if v.signature == "other-world-maintain" {
                v.prop = "C20".to_string();
            }
            v
        }),
        DetCase::Save(s) => props_save::det_save(s),
        DetCase::Merge(m) => props_save::det_merge(m),
    }
}

fn det_case(max_ops: usize) -> impl Strategy<Value = DetCase> {
    prop_oneof![
        3 => hist::history_strategy(hist::MIXED_PROFILE, max_ops).prop_map(DetCase::Hist),
        1 => props_save::save_case().prop_map(|mut c| { c.uuid = false; c.shuffle = None; DetCase::Save(c) }),
        1 => props_save::merge_case_strategy(max_ops.min(40)).prop_map(DetCase::Merge),
    ]
}

fn first_divergence(a: &[String], b: &[String]) -> String {
    for (i, (x, y)) in a.iter().zip(b.iter()).enumerate() {
        if x != y {
            return format!("first divergence at transcript line {}:\n  run A: {}\n  run B: {}", i, cut(x), cut(y));
        }
    }
    format!("transcripts have different lengths ({} vs {})", a.len(), b.len())
}

fn cut(s: &str) -> String {
    if s.len() > 400 {
        format!("{}...", &s[..400])
    } else {
        s.to_string()
    }
}

fn nontrivial(c: &DetCase) -> bool {
    match c {
        DetCase::Hist(h) => {
            let hashy = h.storages.iter().any(|(k, _)| matches!(k, Kind::HashMap | Kind::FlaggedHashMap));
            hashy && h.ops.len() >= 6
        }
        DetCase::Save(s) => s.ents.iter().filter(|e| e.marked).count() >= 3,
        DetCase::Merge(m) => m.ops.iter().any(|o| matches!(o, props_save::MOp::Load { .. })) && m.ops.len() >= 6,
    }
}

/// Runs each case twice in this process and once more in a fresh process
/// (different hash seeds, different address layout); all transcripts must agree.
fn c20_run(ctx: &ShardCtx) -> ShardResult {
    let mut stats = Stats::default();
    let cases = ctx.tier.pick(3000u32, 60_000u32);
    let batch = 200usize;
    let max_ops = ctx.tier.pick(40, 120);
    // generate the cases with proptest's runner so the run is a function of the seed
    let mut runner = proptest::test_runner::TestRunner::new(proptest::test_runner::Config {
        rng_seed: proptest::test_runner::RngSeed::Fixed(ctx.shard_seed(20)),
        failure_persistence: None,
        ..Default::default()
    });
    let strat = det_case(max_ops);
    let exe = std::env::current_exe().expect("exe");
    let dir = std::path::Path::new(crate::engine::VERIF_DIR).join("harness/target/run/C20");
    let _ = std::fs::create_dir_all(&dir);
    let mut done = 0u32;
    while done < cases {
        let mut group: Vec<(DetCase, Vec<String>)> = vec![];
        for _ in 0..batch.min((cases - done) as usize) {
            let tree = match strat.new_tree(&mut runner) {
                Ok(t) => t,
                Err(_) => continue,
            };
            let case = proptest::strategy::ValueTree::current(&tree);
            if let Ok(v) = serde_json::to_value(&case) {
                ctx.journal(&v);
            }
            let a = match crate::engine::guard("C20", || transcript(&case)) {
                Ok(t) => t,
                Err(v) if v.prop == "C20" => return fail(stats, v, &case),
                Err(v) => {
                    *stats.aborted_other.entry(v.prop).or_insert(0) += 1;
                    continue;
                }
            };
            // second run: an unrelated third world is busy in between (merge histories)
            let b = match crate::engine::guard("C20", || props_save::with_noise(|| transcript(&case))) {
                Ok(t) => t,
                Err(v) => return fail(stats, Violation::new("C20", "second-run-differs", format!("the second in-process run of the same history failed although the first did not: {}", v.msg)), &case),
            };
            if a != b {
                return fail(stats, Violation::new("C20", "in-process-divergence", format!("two worlds in one process, same operations: {}", first_divergence(&a, &b))), &case);
            }
            stats.case(&case, nontrivial(&case));
            stats.label(match case {
                DetCase::Hist(_) => "history",
                DetCase::Save(_) => "saveload",
                DetCase::Merge(_) => "merge-history",
            });
            group.push((case, a));
        }
        done += batch as u32;
        // fresh process
        let infile = dir.join(format!("cases-{}-{}.json", ctx.shard, done));
        let outfile = dir.join(format!("transcripts-{}-{}.json", ctx.shard, done));
        let cases_only: Vec<&DetCase> = group.iter().map(|g| &g.0).collect();
        std::fs::write(&infile, serde_json::to_vec(&cases_only).unwrap()).expect("write cases");
        let st = Command::new(&exe).arg("transcript").arg(&infile).arg(&outfile).stdin(Stdio::null()).status();
        let theirs: Option<Vec<Option<Vec<String>>>> = std::fs::read(&outfile).ok().and_then(|b| serde_json::from_slice(&b).ok());
        let _ = std::fs::remove_file(&infile);
        let _ = std::fs::remove_file(&outfile);
        match (st, theirs) {
            (Ok(s), Some(theirs)) if s.success() && theirs.len() == group.len() => {
                for ((case, mine), other) in group.iter().zip(theirs) {
                    stats.label("cross_process_compared");
                    match other {
                        Some(o) if &o == mine => {}
                        Some(o) => {
                            return fail(stats, Violation::new("C20", "cross-process-divergence", format!("same history in a fresh process (different hash seeds / address layout): {}", first_divergence(mine, &o))), case)
                        }
                        None => return fail(stats, Violation::new("C20", "cross-process-divergence", "the fresh process could not complete a history that this process completed".to_string()), case),
                    }
                }
            }
            (st, _) => {
                return fail(stats, Violation::new("INFRA", "child", format!("transcript child process failed: {:?}", st)), &group.first().map(|g| g.0.clone()).unwrap_or(DetCase::Save(SaveCase { ents: vec![], holes: vec![], shift: 0, recursive: false, ron: false, uuid: false, shuffle: None, churn: vec![], late: vec![], reload_after_wipe: false })));
            }
        }
    }
    ShardResult { stats, failure: None }
}

fn fail(stats: Stats, v: Violation, case: &DetCase) -> ShardResult {
    // shrink by dropping operations from the end / front while the divergence persists (in-process only)
    let mut best = case.clone();
    if let (DetCase::Hist(h), true) = (case, v.signature == "in-process-divergence") {
        let mut cur = h.clone();
        let mut changed = true;
        while changed {
            changed = false;
            for i in (0..cur.ops.len()).rev() {
                let mut cand = cur.clone();
                cand.ops.remove(i);
                let c = DetCase::Hist(cand.clone());
                if let (Ok(a), Ok(b)) = (transcript(&c), transcript(&c)) {
                    if a != b {
                        cur = cand;
                        changed = true;
                    }
                }
            }
        }
        best = DetCase::Hist(cur);
    }
    ShardResult { stats, failure: Some(crate::engine::Failure { violation: v, case: serde_json::to_value(&best).unwrap_or(Value::Null) }) }
}

/// `specs-verif transcript <cases.json> <out.json>`
pub fn transcript_main(infile: &str, outfile: &str) -> i32 {
    crate::engine::install_panic_hook();
    let cases: Vec<DetCase> = match std::fs::read(infile).ok().and_then(|b| serde_json::from_slice(&b).ok()) {
        Some(c) => c,
        None => return 2,
    };
    let out: Vec<Option<Vec<String>>> = cases.iter().map(|c| crate::engine::guard("C20", || transcript(c)).ok()).collect();
    match std::fs::write(outfile, serde_json::to_vec(&out).unwrap()) {
        Ok(()) => 0,
        Err(_) => 2,
    }
}

fn c20_replay(v: &Value) -> Verdict {
    let c: DetCase = parse_case("det", v)?;
    let a = transcript(&c)?;
    let b = props_save::with_noise(|| transcript(&c))?;
    if a != b {
        return Err(Violation::new("C20", "in-process-divergence", first_divergence(&a, &b)));
    }
    // and once in a fresh process
    let exe = std::env::current_exe().expect("exe");
    let dir = std::path::Path::new(crate::engine::VERIF_DIR).join("harness/target/run/C20");
    let _ = std::fs::create_dir_all(&dir);
    let infile = dir.join("replay-case.json");
    let outfile = dir.join("replay-transcript.json");
    std::fs::write(&infile, serde_json::to_vec(&vec![&c]).unwrap()).expect("write");
    let _ = Command::new(&exe).arg("transcript").arg(&infile).arg(&outfile).status();
    let theirs: Option<Vec<Option<Vec<String>>>> = std::fs::read(&outfile).ok().and_then(|b| serde_json::from_slice(&b).ok());
    match theirs.and_then(|mut t| t.pop()).flatten() {
        Some(o) if o == a => Ok(()),
        Some(o) => Err(Violation::new("C20", "cross-process-divergence", first_divergence(&a, &o))),
        None => Err(Violation::new("INFRA", "child", "transcript child failed".to_string())),
    }
}

pub fn c20() -> Property {
    Property {
        id: "C20",
        subs: vec![SubCheck {
            name: "transcripts",
            shards: |t: Tier| t.pick(8, 16),
            run: c20_run,
            replay: c20_replay,
            rule: "single-threaded world histories (mixed profile: all creation / deletion paths, maintain, storage operations on 2..6 storages incl. HashMapStorage and the tracked wrappers, lazy updates) save/load cases (SimpleMarker, JSON and RON, recursive and not) and mark / delete / maintain / allocator-maintain / save / load histories over two worlds (SimpleMarker, and UuidMarker with explicit ids only); the full transcript (every handle, every result, the entities join and every storage's join after each step, every event read from tracked storages, serialised bytes, the loaded world and its re-serialisation) is produced twice in this process (two worlds) and once in a fresh process (different RandomState / ahash seeds and address layout) and must be identical; destructor order at teardown is not part of the transcript; non-trivial = a history over a hash-backed storage with >= 6 operations, or a save case with >= 3 marked entities",
            exe_env: None,
        }],
        crash_is_violation: false,
        assumptions: &["UuidMarker::new_random is excluded (random by design)", "teardown destructor order is excluded (shred keeps resources in a hash map)"],
    }
}
