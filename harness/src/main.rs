mod bigworld;
mod engine;
mod fuzzdec;
mod hist;
mod joinworld;
mod props_conc;
mod props_derive;
mod props_det;
mod props_disp;
mod props_hist;
mod props_join;
mod props_save;
mod props_seq;
mod stoseq;
mod zoo;

use engine::{Property, Tier};

fn with_sub(mut p: Property, s: engine::SubCheck) -> Property {
    p.subs.push(s);
    p
}

fn registry() -> Vec<Property> {
    vec![
        with_sub(props_hist::c01::property(), bigworld::sub()),
        with_sub(props_hist::c02::property(), bigworld::sub()),
        props_hist::c03::property(),
        with_sub(props_hist::c05::property(), bigworld::sub()),
        props_hist::c09::property(),
        props_conc::c17_subs().into_iter().fold(with_sub(props_hist::c17::property(), bigworld::sub()), with_sub),
        props_seq::c04(),
        props_join::c06(),
        props_join::c07(),
        props_join::c16(),
        props_save::c14(),
        props_save::c15(),
        props_seq::c08(),
        props_conc::c10(),
        props_disp::c11(),
        props_seq::c12(),
        props_seq::c13(),
        props_derive::c18(),
        props_seq::c19(),
        props_det::c20(),
    ]
}

fn usage() -> ! {
    eprintln!("usage: specs-verif run <ID> quick|thorough [sub-check] | replay <ID> <file> | list");
    std::process::exit(2)
}

fn main() {
    let args: Vec<String> = std::env::args().skip(1).collect();
    if args.is_empty() {
        usage();
    }
    let props = registry();
    let find = |id: &str| -> &Property {
        match props.iter().find(|p| p.id == id) {
            Some(p) => p,
            None => {
                eprintln!("unknown property {}", id);
                std::process::exit(2)
            }
        }
    };
    let code = match args[0].as_str() {
        "list" => {
            for p in &props {
                println!("{} {}", p.id, p.subs.iter().map(|s| s.name).collect::<Vec<_>>().join(","));
            }
            0
        }
        "run" if args.len() >= 3 => {
            let tier = Tier::parse(&args[2]).unwrap_or_else(|| usage());
            engine::orchestrate(find(&args[1]), tier, args.get(3).map(|s| s.as_str()))
        }
        "worker" if args.len() >= 9 => engine::worker_main(find(&args[1]), &args[2..]),
        "transcript" if args.len() >= 3 => props_det::transcript_main(&args[1], &args[2]),
        "replay" if args.len() >= 3 => engine::replay_main(find(&args[1]), &args[2]),
        // development aid: run one saved case n times in this process and report the resident set
        "leak" if args.len() >= 4 => {
            let p = find(&args[1]);
            let v: serde_json::Value = serde_json::from_str(&std::fs::read_to_string(&args[2]).expect("file")).expect("json");
            let sub = p.subs.iter().find(|s| v["check"] == s.name).unwrap_or(&p.subs[0]);
            engine::install_panic_hook();
            let n: usize = args[3].parse().unwrap_or(10);
            for i in 0..n {
                if args[1] == "C19" && v["case"].is_array() {
                    let (seq, at): (stoseq::SeqCase, usize) = serde_json::from_value(v["case"].clone()).expect("proto");
                    let mut st = engine::Stats::default();
                    let r = props_seq::c19_proto(&seq, &at, &mut st); if i == 0 { println!("first result: {:?} labels {:?}", r.as_ref().err().map(|v| &v.msg), st.labels); }
                } else {
                    let _ = (sub.replay)(&v["case"]);
                }
                let pages: u64 = std::fs::read_to_string("/proc/self/statm").ok().and_then(|t| t.split_whitespace().nth(1).and_then(|x| x.parse().ok())).unwrap_or(0);
                if i % (n / 10).max(1) == 0 {
                    println!("iteration {}: RSS {} MiB", i, pages * 4096 / (1 << 20));
                }
            }
            0
        }
        _ => usage(),
    };
    std::process::exit(code);
}
