//! Save/load: C14 (round trip) and C15 (merge by marker, unique ids).

use std::collections::{BTreeMap, BTreeSet, HashSet};

use proptest::prelude::*;
use serde::{Deserialize, Serialize};
use serde_json::Value;
use specs::ConvertSaveload;
use specs::{
    error::Error as SpecsError,
    prelude::*,
    saveload::{
        ConvertSaveload, DeserializeComponents, Marker, MarkerAllocator, SerializeComponents, SimpleMarker,
        SimpleMarkerAllocator, UuidMarker, UuidMarkerAllocator,
    },
    storage::{BTreeStorage, HashMapStorage},
};

use crate::{
    engine::{parse_case, run_proptest, Property, ShardCtx, ShardResult, Stats, SubCheck, Tier, Verdict, Violation},
    ensure,
};

// components ---------------------------------------------------------------

#[derive(Clone, Debug, PartialEq, Serialize, Deserialize)]
pub struct Plain(pub u32);
impl Component for Plain {
    type Storage = VecStorage<Self>;
}

#[derive(ConvertSaveload, Clone, Debug, PartialEq)]
pub struct RefOne {
    pub target: Entity,
    pub tag: u8,
}
impl Component for RefOne {
    type Storage = HashMapStorage<Self>;
}

#[derive(ConvertSaveload, Clone, Debug, PartialEq)]
pub enum RefEnum {
    Nothing,
    One(Entity),
    Two { a: Entity, b: Entity, n: i16 },
    /// a tuple variant with two fields of the same type: their order must survive the conversion
    Pair(Entity, Entity),
}
impl Component for RefEnum {
    type Storage = DenseVecStorage<Self>;
}

#[derive(Clone, Debug, PartialEq, Serialize, Deserialize)]
pub struct Late(pub String);
impl Component for Late {
    type Storage = BTreeStorage<Self>;
}

pub struct Tag;

/// Abstraction over the two marker implementations.
pub trait MarkerKind: 'static {
    type M: Marker<Allocator = Self::A> + Component + Clone + Send + Sync;
    type A: MarkerAllocator<Self::M> + Default + Send + Sync;
    const NAME: &'static str;
    fn id_string(m: &Self::M) -> String;
    /// an explicit identifier "n" (used to fabricate ids above the counter)
    fn explicit(n: u64) -> <Self::M as Marker>::Identifier;
    /// numeric value for SimpleMarker ids
    fn numeric(m: &Self::M) -> Option<u64>;
    fn explicit_string(n: u64) -> String;
    /// an identifier that code might mistake for "no id" (the nil uuid); None if the kind has none
    fn nil_id() -> Option<<Self::M as Marker>::Identifier> {
        None
    }
    /// gives the marker data that is not part of its identity (if the kind has any)
    fn decorate(_m: &mut Self::M, _k: u32) {}
}

/// A user-defined marker in the shape of the `Marker` documentation: an id plus data that is not used
/// for identification but takes part in the derived `Eq` / `Hash`.
#[derive(Clone, Debug, PartialEq, Eq, Hash, Serialize, Deserialize)]
pub struct NetMarker {
    id: u64,
    seq: u32,
}

impl Component for NetMarker {
    type Storage = DenseVecStorage<Self>;
}

impl Marker for NetMarker {
    type Identifier = u64;
    type Allocator = NetAllocator;
    fn id(&self) -> u64 {
        self.id
    }
    fn update(&mut self, new_revision: Self) {
        self.seq = new_revision.seq;
    }
}

#[derive(Default)]
pub struct NetAllocator {
    next: u64,
    mapping: std::collections::HashMap<u64, Entity>,
}

impl MarkerAllocator<NetMarker> for NetAllocator {
    fn allocate(&mut self, entity: Entity, id: Option<u64>) -> NetMarker {
        let id = id.unwrap_or(self.next);
        if id >= self.next {
            self.next = id + 1;
        }
        self.mapping.insert(id, entity);
        NetMarker { id, seq: 0 }
    }
    fn retrieve_entity_internal(&self, id: u64) -> Option<Entity> {
        self.mapping.get(&id).cloned()
    }
    fn maintain(&mut self, entities: &specs::world::EntitiesRes, storage: &ReadStorage<NetMarker>) {
        self.mapping = (entities, storage).join().map(|(e, m)| (m.id, e)).collect();
    }
}

pub struct NetKind;
impl MarkerKind for NetKind {
    type M = NetMarker;
    type A = NetAllocator;
    const NAME: &'static str = "NetMarker";
    fn id_string(m: &Self::M) -> String {
        format!("{}", m.id)
    }
    fn explicit(n: u64) -> u64 {
        n
    }
    fn numeric(m: &Self::M) -> Option<u64> {
        Some(m.id)
    }
    fn explicit_string(n: u64) -> String {
        format!("{}", n)
    }
    fn decorate(m: &mut Self::M, k: u32) {
        m.seq = k;
    }
}

pub struct SimpleKind;
impl MarkerKind for SimpleKind {
    type M = SimpleMarker<Tag>;
    type A = SimpleMarkerAllocator<Tag>;
    const NAME: &'static str = "SimpleMarker";
    fn id_string(m: &Self::M) -> String {
        format!("{}", m.id())
    }
    fn explicit(n: u64) -> u64 {
        n
    }
    fn numeric(m: &Self::M) -> Option<u64> {
        Some(m.id())
    }
    fn explicit_string(n: u64) -> String {
        format!("{}", n)
    }
}

pub struct UuidKind;
impl MarkerKind for UuidKind {
    type M = UuidMarker;
    type A = UuidMarkerAllocator;
    const NAME: &'static str = "UuidMarker";
    fn id_string(m: &Self::M) -> String {
        format!("{}", m.uuid())
    }
    fn explicit(n: u64) -> specs::uuid::Uuid {
        // one of the explicit ids is the all-zero uuid: a value like any other
        if n == 3 {
            return specs::uuid::Uuid::nil();
        }
        specs::uuid::Uuid::from_u128(0xABCD_0000_0000_0000_0000_0000_0000_0000u128 + n as u128)
    }
    fn nil_id() -> Option<specs::uuid::Uuid> {
        Some(specs::uuid::Uuid::nil())
    }
    fn numeric(_: &Self::M) -> Option<u64> {
        None
    }
    fn explicit_string(n: u64) -> String {
        format!("{}", Self::explicit(n))
    }
}

fn new_world<K: MarkerKind>() -> World {
    let mut w = World::new();
    w.register::<Plain>();
    w.register::<RefOne>();
    w.register::<RefEnum>();
    w.register::<Late>();
    w.setup::<ReadStorage<K::M>>();
    w.insert(K::A::default());
    w
}

#[derive(Clone, Copy, Debug, PartialEq, Eq)]
pub enum Format {
    Json,
    Ron,
}

fn save<K: MarkerKind>(world: &mut World, format: Format, recursive: bool) -> Result<Vec<u8>, String> {
    let mut buf = Vec::new();
    let ents = world.entities();
    let p = world.read_storage::<Plain>();
    let r1 = world.read_storage::<RefOne>();
    let re = world.read_storage::<RefEnum>();
    let late = world.read_storage::<Late>();
    let comps = (&p, &r1, &re, &late);
    if recursive {
        let mut markers = world.write_storage::<K::M>();
        let mut alloc = world.write_resource::<K::A>();
        match format {
            Format::Json => {
                let mut ser = serde_json::Serializer::new(&mut buf);
                SerializeComponents::<std::convert::Infallible, K::M>::serialize_recursive(&comps, &ents, &mut markers, &mut *alloc, &mut ser).map_err(|e| e.to_string())?;
            }
            Format::Ron => {
                let mut ser = ron::ser::Serializer::new(&mut buf, None).map_err(|e| e.to_string())?;
                SerializeComponents::<std::convert::Infallible, K::M>::serialize_recursive(&comps, &ents, &mut markers, &mut *alloc, &mut ser).map_err(|e| e.to_string())?;
            }
        }
    } else {
        let markers = world.read_storage::<K::M>();
        match format {
            Format::Json => {
                let mut ser = serde_json::Serializer::new(&mut buf);
                SerializeComponents::<std::convert::Infallible, K::M>::serialize(&comps, &ents, &markers, &mut ser).map_err(|e| e.to_string())?;
            }
            Format::Ron => {
                let mut ser = ron::ser::Serializer::new(&mut buf, None).map_err(|e| e.to_string())?;
                SerializeComponents::<std::convert::Infallible, K::M>::serialize(&comps, &ents, &markers, &mut ser).map_err(|e| e.to_string())?;
            }
        }
    }
    Ok(buf)
}

fn load<K: MarkerKind>(world: &mut World, format: Format, data: &[u8]) -> Result<(), String> {
    let ents = world.entities();
    let p = world.write_storage::<Plain>();
    let r1 = world.write_storage::<RefOne>();
    let re = world.write_storage::<RefEnum>();
    let late = world.write_storage::<Late>();
    let mut markers = world.write_storage::<K::M>();
    let mut alloc = world.write_resource::<K::A>();
    let mut comps = (p, r1, re, late);
    match format {
        Format::Json => {
            let mut de = serde_json::Deserializer::from_slice(data);
            DeserializeComponents::<SpecsError, K::M>::deserialize(&mut comps, &ents, &mut markers, &mut *alloc, &mut de).map_err(|e| e.to_string())
        }
        Format::Ron => {
            let mut de = ron::de::Deserializer::from_bytes(data).map_err(|e| e.to_string())?;
            DeserializeComponents::<SpecsError, K::M>::deserialize(&mut comps, &ents, &mut markers, &mut *alloc, &mut de).map_err(|e| e.to_string())
        }
    }
}

fn vio(p: &str, s: &str, m: String) -> Violation {
    Violation::new(p, s, m)
}

// --------------------------------------------------------------------------- C14

#[derive(Clone, Debug, Serialize, Deserialize, Hash, PartialEq, Eq)]
pub enum RefSpec {
    Nothing,
    One(u16),
    Two(u16, u16, i16),
}

#[derive(Clone, Debug, Serialize, Deserialize, Hash, PartialEq, Eq)]
pub struct EntSpec {
    pub marked: bool,
    pub plain: Option<u32>,
    pub ref1: Option<(u16, u8)>,
    pub refe: Option<RefSpec>,
    pub late: Option<String>,
}

#[derive(Clone, Debug, Serialize, Deserialize, Hash, PartialEq, Eq)]
pub struct SaveCase {
    pub ents: Vec<EntSpec>,
    /// source entities deleted before marking / filling (makes indices sparse and reused)
    pub holes: Vec<u16>,
    pub shift: u8,
    pub recursive: bool,
    pub ron: bool,
    pub uuid: bool,
    pub shuffle: Option<u64>,
    /// marked source entities deleted again (+ maintain + MarkerAllocator::maintain) before `late` ones get their marker
    pub churn: Vec<u16>,
    /// source entities (positions) that are only marked after the churn
    pub late: Vec<u16>,
    /// load once, wipe the target world (delete_all + maintain, allocator not maintained), load again
    pub reload_after_wipe: bool,
}

fn ent_spec() -> impl Strategy<Value = EntSpec> {
    (
        prop::bool::weighted(0.6),
        proptest::option::weighted(0.7, 0u32..1000),
        proptest::option::weighted(0.5, (any::<u16>(), any::<u8>())),
        proptest::option::weighted(0.5, prop_oneof![
            Just(RefSpec::Nothing),
            any::<u16>().prop_map(RefSpec::One),
            (any::<u16>(), any::<u16>(), any::<i16>()).prop_map(|(a, b, n)| RefSpec::Two(a, b, n)),
        ]),
        proptest::option::weighted(0.3, "[a-z]{0,6}"),
    )
        .prop_map(|(marked, plain, ref1, refe, late)| EntSpec { marked, plain, ref1, refe, late })
}

pub fn save_case() -> impl Strategy<Value = SaveCase> {
    (
        proptest::collection::vec(ent_spec(), 0..40),
        proptest::collection::vec(any::<u16>(), 0..6),
        0u8..12,
        any::<bool>(),
        any::<bool>(),
        any::<bool>(),
        proptest::option::weighted(0.4, any::<u64>()),
        proptest::collection::vec(any::<u16>(), 0..4),
        proptest::collection::vec(any::<u16>(), 0..4),
        prop::bool::weighted(0.25),
    )
        .prop_map(|(ents, holes, shift, recursive, ron, uuid, shuffle, churn, late, reload_after_wipe)| SaveCase { ents, holes, shift, recursive, ron, uuid, shuffle, churn, late, reload_after_wipe })
}

#[derive(Default)]
struct SaveFacts {
    nontrivial: bool,
    marked: usize,
    transferred: usize,
    forward_or_cycle: bool,
}

fn shuffle_json(data: &[u8], seed: u64) -> Vec<u8> {
    let mut v: Value = serde_json::from_slice(data).expect("json");
    if let Value::Array(a) = &mut v {
        // deterministic Fisher-Yates with a small LCG
        let mut x = seed | 1;
        for i in (1..a.len()).rev() {
            x = x.wrapping_mul(6364136223846793005).wrapping_add(1442695040888963407);
            let j = (x >> 33) as usize % (i + 1);
            a.swap(i, j);
        }
    }
    serde_json::to_vec(&v).unwrap()
}

struct Src {
    world: World,
    ents: Vec<Entity>,
    marked_idx: Vec<usize>,
    m_ref1: Vec<Option<(usize, u8)>>,
    m_refe: Vec<Option<(u8, Vec<usize>, i16)>>,
}

fn build_src<K: MarkerKind>(case: &SaveCase) -> Result<Src, Violation> {
    let mut src = new_world::<K>();
    // a few holes so that source indices are sparse and partly reused
    let pre: Vec<Entity> = src.create_iter().take(case.holes.len()).collect();
    let n = case.ents.len();
    // odd first hole: the source entities are created through shared access on recycled indices and,
    // unless a later step maintains, are still unmerged when the world is saved (a reused staging world)
    let atomic_src = case.holes.first().map(|h| h % 2 == 1).unwrap_or(false);
    let ents: Vec<Entity> = if atomic_src {
        src.delete_entities(&pre).unwrap();
        src.maintain();
        let e = src.entities();
        e.create_iter().take(n).collect()
    } else {
        let ents = src.create_iter().take(n).collect();
        if !pre.is_empty() {
            src.delete_entities(&pre).unwrap();
        }
        ents
    };
    // entities marked late (after the churn below) and extra marked entities that are deleted again
    let late: std::collections::BTreeSet<usize> = if n == 0 { Default::default() } else { case.late.iter().map(|x| (*x as usize * n) >> 16).filter(|i| case.ents[*i].marked).collect() };
    let marked_idx: Vec<usize> = (0..n).filter(|i| case.ents[*i].marked).collect();
    // throw-away marked entities get the lowest marker ids, so deleting them later leaves holes
    // below the real ones
    let extra: Vec<Entity> = src.create_iter().take(case.churn.len()).collect();
    {
        let mut alloc = src.write_resource::<K::A>();
        let mut markers = src.write_storage::<K::M>();
        for e in &extra {
            alloc.mark(*e, &mut markers);
        }
    }
    // mark
    {
        let mut alloc = src.write_resource::<K::A>();
        let mut markers = src.write_storage::<K::M>();
        let mut nil_used = case.shift % 2 == 0;
        for i in &marked_idx {
            if late.contains(i) {
                continue;
            }
            if !nil_used {
                nil_used = true;
                if let Some(id) = K::nil_id() {
                    // an explicitly chosen id (the nil uuid) instead of an allocated one
                    let m = alloc.allocate(ents[*i], Some(id));
                    markers.insert(ents[*i], m).unwrap();
                    continue;
                }
            }
            let r = alloc.mark(ents[*i], &mut markers);
            ensure!("C15", "mark-live", matches!(r, Some((_, true))), "marking the live unmarked {:?} did not allocate a marker", ents[*i]);
        }
    }
    if !extra.is_empty() {
        src.delete_entities(&extra).unwrap();
        src.maintain();
        let ents_r = src.entities();
        let markers = src.read_storage::<K::M>();
        let mut alloc = src.write_resource::<K::A>();
        alloc.maintain(&ents_r, &markers);
    }
    {
        let mut alloc = src.write_resource::<K::A>();
        let mut markers = src.write_storage::<K::M>();
        for i in &late {
            let r = alloc.mark(ents[*i], &mut markers);
            ensure!("C15", "mark-live", matches!(r, Some((_, true))), "marking the live unmarked {:?} did not allocate a marker", ents[*i]);
        }
    }
    // data that is not part of the marker's identity (kinds that have any)
    {
        use specs::storage::AccessMut;
        let mut markers = src.write_storage::<K::M>();
        for (k, i) in marked_idx.iter().enumerate() {
            if let Some(mut m) = markers.get_mut(ents[*i]) {
                K::decorate(m.access_mut(), k as u32 + 1);
            }
        }
    }
    // allowed reference targets
    let allowed: Vec<usize> = if case.recursive { (0..n).collect() } else { marked_idx.clone() };
    let tgt = |sel: u16| -> Option<usize> {
        if allowed.is_empty() {
            None
        } else {
            Some(allowed[(sel as usize * allowed.len()) >> 16])
        }
    };
    // model of the source: per entity the referenced source positions
    let mut m_ref1: Vec<Option<(usize, u8)>> = vec![None; n];
    let mut m_refe: Vec<Option<(u8, Vec<usize>, i16)>> = vec![None; n];
    {
        let mut p = src.write_storage::<Plain>();
        let mut r1 = src.write_storage::<RefOne>();
        let mut re = src.write_storage::<RefEnum>();
        let mut late = src.write_storage::<Late>();
        for (i, spec) in case.ents.iter().enumerate() {
            if let Some(x) = spec.plain {
                p.insert(ents[i], Plain(x)).unwrap();
            }
            if let Some((sel, tag)) = spec.ref1 {
                if let Some(t) = tgt(sel) {
                    r1.insert(ents[i], RefOne { target: ents[t], tag }).unwrap();
                    m_ref1[i] = Some((t, tag));
                }
            }
            if let Some(rs) = &spec.refe {
                match rs {
                    RefSpec::Nothing => {
                        re.insert(ents[i], RefEnum::Nothing).unwrap();
                        m_refe[i] = Some((0, vec![], 0));
                    }
                    RefSpec::One(s) => {
                        if let Some(t) = tgt(*s) {
                            re.insert(ents[i], RefEnum::One(ents[t])).unwrap();
                            m_refe[i] = Some((1, vec![t], 0));
                        }
                    }
                    RefSpec::Two(a, b, k) => {
                        if let (Some(ta), Some(tb)) = (tgt(*a), tgt(*b)) {
                            if *k % 3 == 0 {
                                re.insert(ents[i], RefEnum::Pair(ents[ta], ents[tb])).unwrap();
                                m_refe[i] = Some((3, vec![ta, tb], 0));
                            } else {
                                re.insert(ents[i], RefEnum::Two { a: ents[ta], b: ents[tb], n: *k }).unwrap();
                                m_refe[i] = Some((2, vec![ta, tb], *k));
                            }
                        }
                    }
                }
            }
            if let Some(s) = &spec.late {
                late.insert(ents[i], Late(s.clone())).unwrap();
            }
        }
    }
    // deletions that were only requested (Entities::delete, no maintain yet) do not take effect before the
    // save: the entities are alive, joinable and must be saved like all others
    if case.holes.len() >= 2 && case.holes[1] % 2 == 1 {
        let e = src.entities();
        for (i, ent) in ents.iter().enumerate() {
            if i % 3 == 1 {
                e.delete(*ent).unwrap();
            }
        }
    }
    Ok(Src { world: src, ents, marked_idx, m_ref1, m_refe })
}

/// C20: serialised bytes and the loaded world, as text.
pub fn det_save(case: &SaveCase) -> Result<Vec<String>, Violation> {
    let mut s = build_src::<SimpleKind>(case)?;
    let format = if case.ron { Format::Ron } else { Format::Json };
    let data = save::<SimpleKind>(&mut s.world, format, case.recursive).map_err(|e| vio("C14", "serialize-error", e))?;
    let mut out = vec![format!("bytes={}", String::from_utf8_lossy(&data))];
    let mut dst = new_world::<SimpleKind>();
    let _shift: Vec<Entity> = dst.create_iter().take(case.shift as usize).collect();
    load::<SimpleKind>(&mut dst, format, &data).map_err(|e| vio("C14", "deserialize-error", e))?;
    dst.maintain();
    let ents = dst.entities();
    let markers = dst.read_storage::<SimpleMarker<Tag>>();
    let p = dst.read_storage::<Plain>();
    let r1 = dst.read_storage::<RefOne>();
    let re = dst.read_storage::<RefEnum>();
    let late = dst.read_storage::<Late>();
    for e in (&ents).join() {
        out.push(format!("{:?} marker={:?} plain={:?} r1={:?} re={:?} late={:?}", e, markers.get(e).map(|m| m.id()), p.get(e), r1.get(e), re.get(e), late.get(e)));
    }
    // a second serialisation of the loaded world
    drop((ents, markers, p, r1, re, late));
    let again = save::<SimpleKind>(&mut dst, format, false).map_err(|e| vio("C14", "serialize-error", e))?;
    out.push(format!("bytes2={}", String::from_utf8_lossy(&again)));
    Ok(out)
}

fn c14_one<K: MarkerKind>(case: &SaveCase) -> Result<SaveFacts, Violation> {
    let Src { world: mut src, ents, marked_idx, m_ref1, m_refe } = build_src::<K>(case)?;
    let n = case.ents.len();
    // expected transferred set
    let mut transferred: BTreeSet<usize> = marked_idx.iter().cloned().collect();
    if case.recursive {
        let mut work: Vec<usize> = transferred.iter().cloned().collect();
        while let Some(i) = work.pop() {
            let mut next = vec![];
            if let Some((t, _)) = m_ref1[i] {
                next.push(t);
            }
            if let Some((_, ts, _)) = &m_refe[i] {
                next.extend(ts.iter().cloned());
            }
            for t in next {
                if transferred.insert(t) {
                    work.push(t);
                }
            }
        }
    }
    let format = if case.ron { Format::Ron } else { Format::Json };
    let data = save::<K>(&mut src, format, case.recursive).map_err(|e| vio("C14", "serialize-error", format!("serialising failed: {}", e)))?;
    // marker ids of the source (after serialisation: the recursive serialiser marks more entities)
    let src_ids: Vec<Option<String>> = {
        let markers = src.read_storage::<K::M>();
        ents.iter().map(|e| markers.get(*e).map(|m| K::id_string(m))).collect()
    };
    for i in 0..n {
        ensure!("C14", "recursive-marking", src_ids[i].is_some() == transferred.contains(&i),
            "after serialising (recursive={}) source entity #{} is marked={} but expected in transferred set={}", case.recursive, i, src_ids[i].is_some(), transferred.contains(&i));
    }
    {
        let mut seen = HashSet::new();
        for id in src_ids.iter().flatten() {
            ensure!("C14", "duplicate-marker-id-in-source", seen.insert(id.clone()), "two marked source entities carry marker id {} (they would be merged into one entity by any load)", id);
        }
    }
    let data = match (case.shuffle, format) {
        (Some(seed), Format::Json) => shuffle_json(&data, seed),
        _ => data,
    };
    // target world, pre-shifted
    let mut dst = new_world::<K>();
    let shift: Vec<Entity> = dst.create_iter().take(case.shift as usize).collect();
    load::<K>(&mut dst, format, &data).map_err(|e| vio("C14", "deserialize-error", format!("loading failed: {} (data: {})", e, String::from_utf8_lossy(&data).chars().take(300).collect::<String>())))?;
    dst.maintain();
    if case.reload_after_wipe {
        // empty the world again (the marker allocator is deliberately not maintained) and load once more
        dst.delete_all();
        dst.maintain();
        let again: Vec<Entity> = dst.create_iter().take(case.shift as usize).collect();
        ensure!("C01", "wipe", again.len() == case.shift as usize, "re-creating the pre-existing entities failed");
        load::<K>(&mut dst, format, &data).map_err(|e| vio("C14", "deserialize-error", format!("second load into the emptied world failed: {}", e)))?;
        dst.maintain();
    }
    let shift: Vec<Entity> = if case.reload_after_wipe { (&dst.entities()).join().filter(|e| dst.read_storage::<K::M>().get(*e).is_none()).collect() } else { shift };
    // compare through the marker correspondence
    let ents_d = dst.entities();
    let markers = dst.read_storage::<K::M>();
    let p = dst.read_storage::<Plain>();
    let r1 = dst.read_storage::<RefOne>();
    let re = dst.read_storage::<RefEnum>();
    let late = dst.read_storage::<Late>();
    let mut by_id: BTreeMap<String, Entity> = BTreeMap::new();
    for (e, m) in (&ents_d, &markers).join() {
        let id = K::id_string(m);
        ensure!("C14", "duplicate-entity-for-marker", by_id.insert(id.clone(), e).is_none(), "the loaded world has two entities with marker id {}", id);
    }
    let want_ids: BTreeSet<String> = transferred.iter().map(|i| src_ids[*i].clone().unwrap()).collect();
    let got_ids: BTreeSet<String> = by_id.keys().cloned().collect();
    ensure!("C14", if got_ids.len() < want_ids.len() { "entity-lost" } else { "entity-extra" }, got_ids == want_ids,
        "marker ids in the loaded world {:?} differ from the marked source entities {:?} (recursive={})", got_ids, want_ids, case.recursive);
    let total = (&ents_d).join().count();
    ensure!("C14", "entity-count", total == case.shift as usize + transferred.len(), "the loaded world has {} entities, expected {} pre-existing + {} transferred", total, case.shift, transferred.len());
    for e in &shift {
        ensure!("C14", "unrelated-entity-touched", markers.get(*e).is_none() && p.get(*e).is_none() && r1.get(*e).is_none() && re.get(*e).is_none() && late.get(*e).is_none(),
            "pre-existing unmarked entity {:?} of the target world got a component", e);
    }
    let src_p = src.read_storage::<Plain>();
    let src_late = src.read_storage::<Late>();
    let dst_of = |i: usize| -> Entity { by_id[src_ids[i].as_ref().unwrap()] };
    for i in &transferred {
        let d = dst_of(*i);
        ensure!("C14", "plain-component", p.get(d) == src_p.get(ents[*i]), "entity with marker {:?}: Plain is {:?}, the source has {:?}", src_ids[*i], p.get(d), src_p.get(ents[*i]));
        ensure!("C14", "late-component", late.get(d) == src_late.get(ents[*i]), "entity with marker {:?}: Late is {:?}, the source has {:?}", src_ids[*i], late.get(d), src_late.get(ents[*i]));
        let want1 = m_ref1[*i].map(|(t, tag)| RefOne { target: dst_of(t), tag });
        ensure!("C14", "entity-reference", r1.get(d) == want1.as_ref(), "entity with marker {:?}: RefOne is {:?}, expected {:?} (the entity carrying the referenced marker)", src_ids[*i], r1.get(d), want1);
        let wante = m_refe[*i].as_ref().map(|(k, ts, nn)| match k {
            0 => RefEnum::Nothing,
            1 => RefEnum::One(dst_of(ts[0])),
            2 => RefEnum::Two { a: dst_of(ts[0]), b: dst_of(ts[1]), n: *nn },
            _ => RefEnum::Pair(dst_of(ts[0]), dst_of(ts[1])),
        });
        ensure!("C14", "entity-reference-enum", re.get(d) == wante.as_ref(), "entity with marker {:?}: RefEnum is {:?}, expected {:?}", src_ids[*i], re.get(d), wante);
    }
    // forward reference / cycle detection for the non-triviality rule
    let mut fwd = false;
    for i in &transferred {
        let mut ts = vec![];
        if let Some((t, _)) = m_ref1[*i] {
            ts.push(t);
        }
        if let Some((_, v, _)) = &m_refe[*i] {
            ts.extend(v.iter().cloned());
        }
        if ts.iter().any(|t| t >= i) {
            fwd = true;
        }
    }
    Ok(SaveFacts {
        nontrivial: marked_idx.len() >= 3 && marked_idx.len() < n && fwd,
        marked: marked_idx.len(),
        transferred: transferred.len(),
        forward_or_cycle: fwd,
    })
}

fn c14_dispatch(case: &SaveCase) -> Result<SaveFacts, Violation> {
    if case.uuid {
        c14_one::<UuidKind>(case)
    } else if case.shift % 3 == 2 {
        c14_one::<NetKind>(case)
    } else {
        c14_one::<SimpleKind>(case)
    }
}

fn c14_run(ctx: &ShardCtx) -> ShardResult {
    let cases = ctx.tier.pick(10000, 250_000);
    run_proptest(ctx, save_case(), cases, 14, |c, stats| {
        let f = c14_dispatch(c)?;
        stats.label(if c.uuid { "marker.uuid" } else if c.shift % 3 == 2 { "marker.user-defined" } else { "marker.simple" });
        stats.label(if c.ron { "format.ron" } else { "format.json" });
        stats.label(if c.recursive { "recursive" } else { "non-recursive" });
        if c.holes.first().map(|h| h % 2 == 1).unwrap_or(false) && c.churn.is_empty() {
            stats.label("source_unmerged_on_recycled_indices");
        }
        if c.shuffle.is_some() && !c.ron {
            stats.label("records_shuffled");
        }
        if f.forward_or_cycle {
            stats.label("forward_ref_or_cycle");
        }
        if f.transferred > f.marked {
            stats.label("recursive_marked_more");
        }
        stats.case(c, f.nontrivial);
        Ok(())
    })
}

fn c14_replay(v: &Value) -> Verdict {
    let c: SaveCase = parse_case("save", v)?;
    c14_dispatch(&c).map(|_| ())
}

pub fn c14() -> Property {
    Property {
        id: "C14",
        subs: vec![SubCheck {
            name: "roundtrip",
            shards: |t: Tier| t.pick(8, 16),
            run: c14_run,
            replay: c14_replay,
            rule: "generated source worlds: 0..40 entities on sparse / reused indices, random subset marked, random subset of four component types (plain value in VecStorage, derived struct with an Entity field in HashMapStorage, derived enum with 0/1/2 Entity fields in DenseVecStorage, String in BTreeStorage), reference graphs with self loops, cycles and forward references (targets restricted to marked entities for serialize, any entity for serialize_recursive); SimpleMarker and UuidMarker; serde_json and RON; target world pre-shifted by k unmarked entities; JSON entity records optionally shuffled; oracle: exactly one entity per transferred marker id, same components with references mapped through the markers, nothing else created or touched, recursive serialiser marks exactly the reachable closure; non-trivial = >= 3 marked, >= 1 unmarked, >= 1 forward reference / self loop / cycle",
            exe_env: None,
        }],
        crash_is_violation: false,
        assumptions: &["serde_json and ron are trusted", "references of marked entities point to marked entities for the non-recursive serialiser (documented domain)"],
    }
}

// --------------------------------------------------------------------------- C15

#[derive(Clone, Debug, Serialize, Deserialize, Hash, PartialEq, Eq)]
pub enum MOp {
    Create { world: bool, marked: bool, plain: Option<u32>, late: bool, refto: Option<u16> },
    Mark { world: bool, sel: u16 },
    DeleteNow { world: bool, sel: u16 },
    DeleteAtomic { world: bool, sel: u16 },
    Maintain { world: bool },
    AllocMaintain { world: bool },
    /// entity with an explicit id a little above everything used so far in that world
    Explicit { world: bool, delta: u8 },
    Save { world: bool },
    Load { buf: u8, into: bool },
    SetPlain { world: bool, sel: u16, val: Option<u32> },
    /// LazyUpdate::create_entity(..).marked::<M>().build(): the marking runs at the next maintain
    LazyMarked { world: bool, plain: Option<u32> },
    /// the load is queued as a lazy action and runs inside the next maintain (which follows at once):
    /// after that maintain's deletions took effect
    LazyLoad { buf: u8, into: bool },
}

#[derive(Clone, Debug, Serialize, Deserialize, Hash, PartialEq, Eq)]
pub struct MergeCase {
    pub uuid: bool,
    pub ops: Vec<MOp>,
}

fn mop() -> impl Strategy<Value = MOp> {
    prop_oneof![
        6 => (any::<bool>(), prop::bool::weighted(0.8), proptest::option::of(0u32..100), any::<bool>(), proptest::option::of(any::<u16>()))
            .prop_map(|(world, marked, plain, late, refto)| MOp::Create { world, marked, plain, late, refto }),
        2 => (any::<bool>(), any::<u16>()).prop_map(|(world, sel)| MOp::Mark { world, sel }),
        3 => (any::<bool>(), any::<u16>()).prop_map(|(world, sel)| MOp::DeleteNow { world, sel }),
        2 => (any::<bool>(), any::<u16>()).prop_map(|(world, sel)| MOp::DeleteAtomic { world, sel }),
        2 => any::<bool>().prop_map(|world| MOp::Maintain { world }),
        2 => any::<bool>().prop_map(|world| MOp::AllocMaintain { world }),
        2 => (any::<bool>(), 0u8..4).prop_map(|(world, delta)| MOp::Explicit { world, delta }),
        3 => any::<bool>().prop_map(|world| MOp::Save { world }),
        5 => (any::<u8>(), any::<bool>()).prop_map(|(buf, into)| MOp::Load { buf, into }),
        2 => (any::<bool>(), any::<u16>(), proptest::option::of(0u32..100)).prop_map(|(world, sel, val)| MOp::SetPlain { world, sel, val }),
        2 => (any::<bool>(), proptest::option::of(0u32..100)).prop_map(|(world, plain)| MOp::LazyMarked { world, plain }),
        2 => (any::<u8>(), any::<bool>()).prop_map(|(buf, into)| MOp::LazyLoad { buf, into }),
    ]
}

#[derive(Clone, Debug)]
struct ERec {
    e: Entity,
    alive: bool,
    pending: bool,
    /// a deferred marking (and a deferred Plain component) is queued for this entity
    lazy_mark: Option<Option<u32>>,
    marker: Option<String>,
    num: Option<u64>,
    plain: Option<u32>,
    late: bool,
    refto: Option<String>,
}

#[derive(Clone, Debug)]
struct Record {
    id: String,
    plain: Option<u32>,
    late: bool,
    refto: Option<String>,
}

struct MW<K: MarkerKind> {
    world: World,
    recs: Vec<ERec>,
    max_num: u64,
    _k: std::marker::PhantomData<K>,
}

impl<K: MarkerKind> MW<K> {
    fn new() -> Self {
        MW { world: new_world::<K>(), recs: vec![], max_num: 0, _k: std::marker::PhantomData }
    }

    fn pick(&self, sel: u16) -> Option<usize> {
        if self.recs.is_empty() {
            None
        } else {
            Some((sel as usize * self.recs.len()) >> 16)
        }
    }

    fn live_marked(&self) -> BTreeMap<String, usize> {
        self.recs.iter().enumerate().filter(|(_, r)| r.alive && r.marker.is_some()).map(|(i, r)| (r.marker.clone().unwrap(), i)).collect()
    }

    fn kill(&mut self, i: usize) {
        self.recs[i].alive = false;
        self.recs[i].marker = None;
        self.recs[i].plain = None;
        self.recs[i].late = false;
        self.recs[i].refto = None;
    }

    /// Compares the observable state of the world with the records.
    fn check(&self, step: &str) -> Verdict {
        let w = &self.world;
        let ents = w.entities();
        let markers = w.read_storage::<K::M>();
        let p = w.read_storage::<Plain>();
        let late = w.read_storage::<Late>();
        let r1 = w.read_storage::<RefOne>();
        let mut seen: BTreeMap<String, Entity> = BTreeMap::new();
        for (e, m) in (&ents, &markers).join() {
            let id = K::id_string(m);
            if let Some(prev) = seen.insert(id.clone(), e) {
                return Err(vio("C15", "duplicate-marker-id", format!("after {}: live entities {:?} and {:?} both carry marker id {}", step, prev, e, id)));
            }
        }
        for r in &self.recs {
            ensure!("C02", "aliveness", ents.is_alive(r.e) == r.alive, "after {}: {:?} alive={} expected {}", step, r.e, ents.is_alive(r.e), r.alive);
            if !r.alive {
                continue;
            }
            let got = markers.get(r.e).map(|m| K::id_string(m));
            ensure!("C15", "marker-changed", got == r.marker, "after {}: {:?} carries marker {:?}, expected {:?}", step, r.e, got, r.marker);
            ensure!("C15", "plain-component", p.get(r.e).map(|x| x.0) == r.plain, "after {}: {:?} (marker {:?}) has Plain {:?}, expected {:?}", step, r.e, r.marker, p.get(r.e), r.plain);
            ensure!("C15", "late-component", late.get(r.e).is_some() == r.late, "after {}: {:?} (marker {:?}) has Late={}, expected {}", step, r.e, r.marker, late.get(r.e).is_some(), r.late);
            let got_ref = r1.get(r.e).map(|x| markers.get(x.target).map(|m| K::id_string(m)));
            match (&r.refto, got_ref) {
                (None, None) => {}
                (Some(want), Some(Some(got))) if *want == got => {}
                (want, got) => {
                    // a reference whose target died keeps pointing at the dead handle; only judge live targets
                    let target_alive = r1.get(r.e).map(|x| ents.is_alive(x.target)).unwrap_or(false);
                    if want.is_some() != got.is_some() || target_alive {
                        return Err(vio("C15", "reference-component", format!("after {}: {:?} (marker {:?}) references marker {:?}, expected {:?}", step, r.e, r.marker, got, want)));
                    }
                }
            }
        }
        // every live entity is known to the model
        let known: HashSet<Entity> = self.recs.iter().filter(|r| r.alive).map(|r| r.e).collect();
        for e in (&ents).join() {
            ensure!("C15", "unexpected-entity", known.contains(&e), "after {}: the world contains {:?} which no operation should have created", step, e);
        }
        Ok(())
    }
}

#[derive(Default)]
struct MergeFacts {
    loads: u32,
    load_with_existing_and_deleted: u32,
    repeated_load: u32,
    explicit: u32,
    updated_in_place: u32,
    created_by_load: u32,
}

thread_local! {
    /// C20: while set, an unrelated third world does marker lookups between the operations of a merge
    /// history; nothing the history observes may depend on that.
    static NOISE: std::cell::Cell<bool> = std::cell::Cell::new(false);
}

/// Runs `f` with the unrelated-world activity switched on.
pub fn with_noise<R>(f: impl FnOnce() -> R) -> R {
    NOISE.with(|n| n.set(true));
    let r = f();
    NOISE.with(|n| n.set(false));
    r
}

/// An unrelated world with eight marked entities; `poke` looks each of them up by marker.
struct NoiseWorld<K: MarkerKind> {
    world: World,
    markers: Vec<K::M>,
}

impl<K: MarkerKind> NoiseWorld<K> {
    fn new() -> Self {
        let mut world = new_world::<K>();
        // indices that differ from the history's worlds
        let pad: Vec<Entity> = world.create_iter().take(5).collect();
        let ents: Vec<Entity> = world.create_iter().take(8).collect();
        let _ = pad;
        let mut markers = vec![];
        {
            let mut alloc = world.write_resource::<K::A>();
            let mut st = world.write_storage::<K::M>();
            for e in &ents {
                if let Some((m, _)) = alloc.mark(*e, &mut st) {
                    markers.push(m.clone());
                }
            }
        }
        NoiseWorld { world, markers }
    }

    fn poke(&mut self) {
        let ents = self.world.entities();
        let mut alloc = self.world.write_resource::<K::A>();
        let mut st = self.world.write_storage::<K::M>();
        for m in &self.markers {
            let _ = alloc.retrieve_entity(m.clone(), &mut st, &ents);
        }
    }
}

fn c15_one<K: MarkerKind>(case: &MergeCase, mut transcript: Option<&mut Vec<String>>) -> Result<MergeFacts, Violation> {
    let mut noise: Option<NoiseWorld<K>> = if NOISE.with(|n| n.get()) { Some(NoiseWorld::new()) } else { None };
    let mut ws: [MW<K>; 2] = [MW::new(), MW::new()];
    let mut bufs: Vec<(Vec<u8>, Vec<Record>)> = vec![];
    let mut loaded: HashSet<(usize, bool)> = HashSet::new();
    let mut facts = MergeFacts::default();
    let mut deleted_marked = [false, false];
    for (n, op) in case.ops.iter().enumerate() {
        if let Some(nw) = noise.as_mut() {
            nw.poke();
        }
        let step = format!("step {} {:?}", n, op);
        // an operation may expand into sub-operations (LazyLoad = queue, maintain, model of the load)
        let mut sub_ops: Vec<MOp> = vec![op.clone()];
        let mut load_already_ran = false;
        while let Some(op) = sub_ops.pop() {
        let op = &op;
        match op {
            MOp::LazyLoad { buf, into } => {
                if bufs.is_empty() {
                    continue;
                }
                let bi = (*buf as usize * bufs.len()) >> 8;
                let data = bufs[bi].0.clone();
                let w = &mut ws[*into as usize];
                let failed: std::sync::Arc<std::sync::Mutex<Option<String>>> = Default::default();
                let f2 = failed.clone();
                w.world.read_resource::<LazyUpdate>().exec_mut(move |world| {
                    if let Err(e) = load::<K>(world, Format::Json, &data) {
                        *f2.lock().unwrap() = Some(e);
                    }
                });
                // popped in reverse order: first the maintain (which runs the queued load after its deletions),
                // then the model of the load
                load_already_ran = true;
                sub_ops.push(MOp::Load { buf: *buf, into: *into });
                sub_ops.push(MOp::Maintain { world: *into });
                let _ = failed;
            }
            MOp::Create { world, marked, plain, late, refto } => {
                let w = &mut ws[*world as usize];
                let e = w.world.create_entity().build();
                let mut rec = ERec { e, alive: true, pending: false, lazy_mark: None, marker: None, num: None, plain: *plain, late: *late, refto: None };
                if let Some(x) = plain {
                    w.world.write_storage::<Plain>().insert(e, Plain(*x)).unwrap();
                }
                if *late {
                    w.world.write_storage::<Late>().insert(e, Late("x".into())).unwrap();
                }
                if *marked {
                    let mut alloc = w.world.write_resource::<K::A>();
                    let mut markers = w.world.write_storage::<K::M>();
                    let r = alloc.mark(e, &mut markers);
                    match r {
                        Some((m, true)) => {
                            rec.marker = Some(K::id_string(m));
                            rec.num = K::numeric(m);
                        }
                        other => return Err(vio("C15", "mark-new", format!("{}: mark of a fresh entity returned {:?}", step, other.map(|x| x.1)))),
                    }
                    if let Some(nm) = rec.num {
                        w.max_num = w.max_num.max(nm);
                    }
                    // reference to an already marked live entity (keeps the non-recursive serialiser in its domain)
                    if let Some(sel) = refto {
                        let lm = w.live_marked();
                        if !lm.is_empty() {
                            let keys: Vec<&String> = lm.keys().collect();
                            let k = keys[(*sel as usize * keys.len()) >> 16].clone();
                            let target = w.recs[lm[&k]].e;
                            drop(markers);
                            w.world.write_storage::<RefOne>().insert(e, RefOne { target, tag: 1 }).unwrap();
                            rec.refto = Some(k);
                        }
                    }
                }
                let lm = w.live_marked();
                if let Some(id) = &rec.marker {
                    ensure!("C15", "allocated-id-in-use", !lm.contains_key(id), "{}: the allocator handed out marker id {} which a live entity already carries", step, id);
                }
                w.recs.push(rec);
            }
            MOp::Mark { world, sel } => {
                let w = &mut ws[*world as usize];
                if let Some(i) = w.pick(*sel) {
                    let e = w.recs[i].e;
                    let lm = w.live_marked();
                    let mut alloc = w.world.write_resource::<K::A>();
                    let mut markers = w.world.write_storage::<K::M>();
                    let r = alloc.mark(e, &mut markers).map(|(m, new)| (K::id_string(m), K::numeric(m), new));
                    drop(markers);
                    drop(alloc);
                    if !w.recs[i].alive {
                        ensure!("C15", "mark-dead", r.is_none(), "{}: marking the dead {:?} returned {:?}", step, e, r);
                    } else if let Some(existing) = &w.recs[i].marker {
                        ensure!("C15", "mark-existing", r.as_ref().map(|x| (&x.0, x.2)) == Some((existing, false)),
                            "{}: marking the already marked {:?} returned {:?}, expected its existing marker {} and false", step, e, r, existing);
                    } else {
                        match r {
                            Some((id, num, true)) => {
                                ensure!("C15", "allocated-id-in-use", !lm.contains_key(&id), "{}: the allocator handed out marker id {} which a live entity already carries", step, id);
                                w.recs[i].marker = Some(id);
                                w.recs[i].num = num;
                                if let Some(nm) = num {
                                    w.max_num = w.max_num.max(nm);
                                }
                            }
                            other => return Err(vio("C15", "mark-new", format!("{}: mark of an unmarked live entity returned {:?}", step, other))),
                        }
                    }
                }
            }
            MOp::DeleteNow { world, sel } => {
                let w = &mut ws[*world as usize];
                if let Some(i) = w.pick(*sel) {
                    let r = w.world.delete_entity(w.recs[i].e);
                    ensure!("C02", "delete-result", r.is_ok() == w.recs[i].alive, "{}: delete_entity ok={} alive={}", step, r.is_ok(), w.recs[i].alive);
                    if w.recs[i].alive {
                        if w.recs[i].marker.is_some() {
                            deleted_marked[*world as usize] = true;
                        }
                        w.kill(i);
                    }
                }
            }
            MOp::DeleteAtomic { world, sel } => {
                let w = &mut ws[*world as usize];
                if let Some(i) = w.pick(*sel) {
                    let r = w.world.entities().delete(w.recs[i].e);
                    ensure!("C02", "delete-result", r.is_ok() == w.recs[i].alive, "{}: Entities::delete ok={} alive={}", step, r.is_ok(), w.recs[i].alive);
                    if w.recs[i].alive {
                        w.recs[i].pending = true;
                    }
                }
            }
            MOp::LazyMarked { world, plain } => {
                use specs::saveload::MarkedBuilder;
                let w = &mut ws[*world as usize];
                let e = {
                    let lazy = w.world.read_resource::<LazyUpdate>();
                    let ents = w.world.entities();
                    let b = lazy.create_entity(&ents).marked::<K::M>();
                    match plain {
                        Some(x) => b.with(Plain(*x)).build(),
                        None => b.build(),
                    }
                };
                w.recs.push(ERec { e, alive: true, pending: false, lazy_mark: Some(*plain), marker: None, num: None, plain: None, late: false, refto: None });
            }
            MOp::Maintain { world } => {
                let w = &mut ws[*world as usize];
                w.world.maintain();
                for i in 0..w.recs.len() {
                    if w.recs[i].alive && w.recs[i].pending {
                        if w.recs[i].marker.is_some() {
                            deleted_marked[*world as usize] = true;
                        }
                        w.kill(i);
                    }
                }
                // deferred markings ran after the deletions: a still unmarked live entity got a new id,
                // an entity marked in the meantime keeps its marker
                for i in 0..w.recs.len() {
                    if let Some(plain) = w.recs[i].lazy_mark.take() {
                        if !w.recs[i].alive {
                            continue;
                        }
                        if let Some(x) = plain {
                            w.recs[i].plain = Some(x);
                        }
                        if w.recs[i].marker.is_none() {
                            let lm = w.live_marked();
                            let got = w.world.read_storage::<K::M>().get(w.recs[i].e).map(|m| (K::id_string(m), K::numeric(m)));
                            match got {
                                Some((id, num)) => {
                                    ensure!("C15", "allocated-id-in-use", !lm.contains_key(&id), "{}: the deferred marking of {:?} used marker id {} which a live entity already carries", step, w.recs[i].e, id);
                                    w.recs[i].marker = Some(id);
                                    w.recs[i].num = num;
                                    if let Some(nm) = num {
                                        w.max_num = w.max_num.max(nm);
                                    }
                                }
                                None => return Err(vio("C15", "lazy-mark-missing", format!("{}: the deferred marking of the live {:?} left it unmarked", step, w.recs[i].e))),
                            }
                        }
                    }
                }
            }
            MOp::AllocMaintain { world } => {
                let w = &mut ws[*world as usize];
                let ents = w.world.entities();
                let markers = w.world.read_storage::<K::M>();
                let mut alloc = w.world.write_resource::<K::A>();
                alloc.maintain(&ents, &markers);
            }
            MOp::Explicit { world, delta } => {
                let w = &mut ws[*world as usize];
                // an id slightly above every id this world has seen
                let num = w.max_num + 1 + *delta as u64;
                if w.live_marked().contains_key(&K::explicit_string(num)) {
                    // only possible for uuids copied from the other world: allocating an id that is
                    // in use would be caller misuse
                    w.max_num = num;
                    continue;
                }
                let e = w.world.create_entity().build();
                let m = {
                    let mut alloc = w.world.write_resource::<K::A>();
                    alloc.allocate(e, Some(K::explicit(num)))
                };
                let id = K::id_string(&m);
                ensure!("C15", "explicit-id-not-honoured", id == K::explicit_string(num),
                    "{}: allocate(entity, Some({})) returned a marker with id {}", step, K::explicit_string(num), id);
                if w.live_marked().contains_key(&id) {
                    // cannot happen for ids above the maximum; keep the harness honest
                    w.world.delete_entity(e).unwrap();
                    continue;
                }
                w.world.write_storage::<K::M>().insert(e, m).unwrap();
                w.max_num = num;
                facts.explicit += 1;
                w.recs.push(ERec { e, alive: true, pending: false, lazy_mark: None, marker: Some(id), num: Some(num), plain: None, late: false, refto: None });
            }
            MOp::SetPlain { world, sel, val } => {
                let w = &mut ws[*world as usize];
                if let Some(i) = w.pick(*sel) {
                    if w.recs[i].alive {
                        let e = w.recs[i].e;
                        match val {
                            Some(x) => {
                                w.world.write_storage::<Plain>().insert(e, Plain(*x)).unwrap();
                            }
                            None => {
                                w.world.write_storage::<Plain>().remove(e);
                            }
                        }
                        w.recs[i].plain = *val;
                    }
                }
            }
            MOp::Save { world } => {
                let w = &mut ws[*world as usize];
                // keep the serialiser in its documented domain: references of marked entities must
                // point to live marked entities
                let lm = w.live_marked();
                for i in 0..w.recs.len() {
                    if w.recs[i].alive {
                        let e = w.recs[i].e;
                        let target_ok = {
                            let r1 = w.world.read_storage::<RefOne>();
                            let markers = w.world.read_storage::<K::M>();
                            r1.get(e).map(|x| markers.get(x.target).is_some())
                        };
                        let model_ok = w.recs[i].refto.as_ref().map(|t| lm.contains_key(t));
                        if target_ok == Some(false) || model_ok == Some(false) {
                            w.world.write_storage::<RefOne>().remove(e);
                            w.recs[i].refto = None;
                        }
                    }
                }
                let data = save::<K>(&mut w.world, Format::Json, false).map_err(|e| vio("C15", "serialize-error", format!("{}: {}", step, e)))?;
                let mut records: Vec<Record> = w
                    .recs
                    .iter()
                    .filter(|r| r.alive && r.marker.is_some())
                    .map(|r| Record { id: r.marker.clone().unwrap(), plain: r.plain, late: r.late, refto: r.refto.clone() })
                    .collect();
                records.sort_by(|a, b| a.id.cmp(&b.id));
                let parsed: Value = serde_json::from_slice(&data).map_err(|e| vio("C14", "serialize-error", format!("{}: output is not JSON: {}", step, e)))?;
                if let Some(t) = transcript.as_mut() {
                    t.push(format!("save bytes={}", String::from_utf8_lossy(&data)));
                }
                ensure!("C14", "record-count", parsed.as_array().map(|a| a.len()) == Some(records.len()), "{}: {} records serialised, {} marked live entities", step, parsed.as_array().map(|a| a.len()).unwrap_or(0), records.len());
                bufs.push((data, records));
            }
            MOp::Load { buf, into } => {
                if bufs.is_empty() {
                    continue;
                }
                let bi = (*buf as usize * bufs.len()) >> 8;
                let (data, records) = bufs[bi].clone();
                let wi = *into as usize;
                let w = &mut ws[wi];
                let before = w.live_marked();
                let before_handles: HashSet<Entity> = w.recs.iter().map(|r| r.e).collect();
                facts.loads += 1;
                if !loaded.insert((bi, *into)) {
                    facts.repeated_load += 1;
                }
                if records.iter().any(|r| before.contains_key(&r.id)) && deleted_marked[wi] {
                    facts.load_with_existing_and_deleted += 1;
                }
                if load_already_ran {
                    // the real load ran as a lazy action inside the maintain just before
                    load_already_ran = false;
                } else {
                    load::<K>(&mut w.world, Format::Json, &data).map_err(|e| vio("C15", "deserialize-error", format!("{}: {}", step, e)))?;
                }
                // model: update in place / create
                let mut created: BTreeMap<String, usize> = BTreeMap::new();
                for r in &records {
                    let i = match before.get(&r.id).cloned().or_else(|| created.get(&r.id).cloned()) {
                        Some(i) => {
                            facts.updated_in_place += 1;
                            i
                        }
                        None => {
                            // new entity: find it in the real world by its marker
                            w.recs.push(ERec { e: w.recs.first().map(|x| x.e).unwrap_or_else(|| w.world.entities().entity(0)), alive: true, pending: false, lazy_mark: None, marker: Some(r.id.clone()), num: r.id.parse().ok(), plain: None, late: false, refto: None });
                            created.insert(r.id.clone(), w.recs.len() - 1);
                            facts.created_by_load += 1;
                            w.recs.len() - 1
                        }
                    };
                    w.recs[i].plain = r.plain;
                    w.recs[i].late = r.late;
                    w.recs[i].refto = r.refto.clone();
                    if let Some(nm) = w.recs[i].num {
                        w.max_num = w.max_num.max(nm);
                    }
                }
                // resolve the handles of the created entities through the markers
                {
                    let ents = w.world.entities();
                    let markers = w.world.read_storage::<K::M>();
                    let mut by_id: BTreeMap<String, Vec<Entity>> = BTreeMap::new();
                    for (e, m) in (&ents, &markers).join() {
                        by_id.entry(K::id_string(m)).or_default().push(e);
                    }
                    for (id, i) in &created {
                        match by_id.get(id).map(|v| v.as_slice()) {
                            Some([e]) => {
                                ensure!("C15", "load-reused-handle", !before_handles.contains(e), "{}: marker id {} was unknown, but the load attached it to the pre-existing entity {:?}", step, id, e);
                                w.recs[*i].e = *e;
                            }
                            Some(v) => return Err(vio("C15", "duplicate-marker-id", format!("{}: after the load {} live entities carry marker id {}", step, v.len(), id))),
                            None => return Err(vio("C15", "load-lost-record", format!("{}: after the load no entity carries the loaded marker id {}", step, id))),
                        }
                    }
                    for (id, i) in &before {
                        if records.iter().any(|r| &r.id == id) {
                            match by_id.get(id).map(|v| v.as_slice()) {
                                Some([e]) => ensure!("C15", "not-updated-in-place", *e == w.recs[*i].e, "{}: marker id {} existed on {:?} but after the load it is on {:?}", step, id, w.recs[*i].e, e),
                                Some(v) => return Err(vio("C15", "duplicate-marker-id", format!("{}: after the load {} live entities carry the pre-existing marker id {}", step, v.len(), id))),
                                None => return Err(vio("C15", "load-lost-record", format!("{}: the pre-existing marker id {} vanished during the load", step, id))),
                            }
                        }
                    }
                }
            }
        }
        }
        ws[0].check(&step)?;
        ws[1].check(&step)?;
        if let Some(t) = transcript.as_mut() {
            for (wi, w) in ws.iter().enumerate() {
                let ents = w.world.entities();
                let markers = w.world.read_storage::<K::M>();
                let p = w.world.read_storage::<Plain>();
                let r1 = w.world.read_storage::<RefOne>();
                let line: Vec<String> = (&ents).join().map(|e| format!("{:?}:{:?}:{:?}:{:?}", e, markers.get(e).map(|m| K::id_string(m)), p.get(e), r1.get(e))).collect();
                t.push(format!("step {} world {}: {}", n, wi, line.join(" ")));
            }
        }
    }
    Ok(facts)
}

/// C20: transcript of a merge history. Random uuids are excluded: with UuidMarker only explicit ids are used.
pub fn det_merge(case: &MergeCase) -> Result<Vec<String>, Violation> {
    let mut t = vec![];
    if case.uuid {
        let ops: Vec<MOp> = case
            .ops
            .iter()
            .map(|o| match o {
                MOp::Create { world, marked: true, .. } => MOp::Explicit { world: *world, delta: 0 },
                MOp::Mark { world, .. } => MOp::Explicit { world: *world, delta: 1 },
                MOp::LazyMarked { world, .. } => MOp::Explicit { world: *world, delta: 2 },
                other => other.clone(),
            })
            .collect();
        let c = MergeCase { uuid: true, ops };
        c15_one::<UuidKind>(&c, Some(&mut t))?;
    } else {
        c15_one::<SimpleKind>(case, Some(&mut t))?;
    }
    Ok(t)
}

pub fn merge_case_strategy(max_ops: usize) -> impl Strategy<Value = MergeCase> {
    merge_case(max_ops)
}

fn c15_dispatch(case: &MergeCase) -> Result<MergeFacts, Violation> {
    if case.uuid {
        c15_one::<UuidKind>(case, None)
    } else {
        c15_one::<SimpleKind>(case, None)
    }
}

fn merge_case(max_ops: usize) -> impl Strategy<Value = MergeCase> {
    (prop::bool::weighted(0.25), proptest::collection::vec(mop(), 0..=max_ops)).prop_map(|(uuid, ops)| MergeCase { uuid, ops })
}

fn c15_run(ctx: &ShardCtx) -> ShardResult {
    let cases = ctx.tier.pick(10000, 200_000);
    let max_ops = ctx.tier.pick(40, 150);
    run_proptest(ctx, merge_case(max_ops), cases, 15, |c, stats| {
        let f = c15_dispatch(c)?;
        stats.label(if c.uuid { "marker.uuid" } else { "marker.simple" });
        if f.loads > 0 {
            stats.label("load");
        }
        if f.repeated_load > 0 {
            stats.label("repeated_load");
        }
        if f.explicit > 0 {
            stats.label("explicit_id_above_counter");
        }
        if f.updated_in_place > 0 {
            stats.label("updated_in_place");
        }
        if f.created_by_load > 0 {
            stats.label("created_by_load");
        }
        stats.case(c, f.load_with_existing_and_deleted > 0);
        Ok(())
    })
}

fn c15_replay(v: &Value) -> Verdict {
    let c: MergeCase = parse_case("merge", v)?;
    c15_dispatch(&c).map(|_| ())
}

pub fn c15() -> Property {
    Property {
        id: "C15",
        subs: vec![SubCheck {
            name: "merge",
            shards: |t: Tier| t.pick(8, 16),
            run: c15_run,
            replay: c15_replay,
            rule: "histories (<=40 ops quick, <=150 thorough) over two worlds: create (marked / unmarked, components, references to marked entities), mark (fresh, already marked, dead), delete (immediate / deferred), maintain, MarkerAllocator::maintain, entities with explicit ids a little above the counter, serialise a world into a buffer, load any buffer into either world (repeated loads, loads after deletions with a stale allocator mapping, cross-world loads); after every step: marker ids of (&entities,&markers).join() pairwise distinct, every live entity's marker / components equal the model, a load updates pre-existing ids in place (same entity handle), creates entities only for unknown ids (never reusing a pre-existing handle), removes component types recorded absent; mark of a marked entity returns (existing,false); non-trivial = a load into a world that already holds one of the loaded ids and has had a marked entity deleted",
            exe_env: None,
        }],
        crash_is_violation: false,
        assumptions: &["explicit ids are chosen above everything the world has seen (MarkerAllocator::allocate(Some(id)) with an id in use is caller misuse)", "marker components are never removed directly"],
    }
}
