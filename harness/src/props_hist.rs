//! Properties decided by the world-history interpreter (hist.rs).

use serde_json::Value;

use crate::{
    engine::{parse_case, run_list, run_proptest, Property, ShardCtx, ShardResult, Stats, SubCheck, Tier, Verdict},
    hist::{self, Facts, History, Profile},
};

fn label_facts(stats: &mut Stats, f: &Facts) {
    macro_rules! lab {
        ($($name:ident),*) => { $( if f.$name > 0 { stats.label(stringify!($name)); } )* };
    }
    lab!(
        index_reuse, reuse_before_maintain, stale_delete, failing_batch, batch_with_repeat, delete_all,
        dropped_builder, maintains, deaths, death_then_creation, stale_access_occupied_with_comp,
        stale_access, multi_storage_death, multi_storage_death_then_reuse, lazy_actions_run, lazy_nested, lazy_chain_over_64, maintain_inside_closure,
        lazy_dead_target, lazy_reused_target, overwrite_or_remove, live_comps_at_teardown
    );
    stats.label_n("ops_skipped_no_handle", f.skipped_ops as u64);
}

fn run_one(h: &History, stats: &mut Stats, nontrivial: fn(&Facts, &History) -> bool) -> Verdict {
    let (facts, _) = hist::run_history(h, false)?;
    label_facts(stats, &facts);
    stats.case(h, nontrivial(&facts, h));
    Ok(())
}

fn replay_hist(v: &Value) -> Verdict {
    let h: History = parse_case("hist", v)?;
    hist::run_history(&h, false).map(|_| ())
}

fn corpus(prop: &str) -> Vec<History> {
    let dir = std::path::Path::new(crate::engine::VERIF_DIR).join("corpus").join(prop);
    let mut out = vec![];
    if let Ok(rd) = std::fs::read_dir(&dir) {
        let mut files: Vec<_> = rd.filter_map(|e| e.ok()).map(|e| e.path()).collect();
        files.sort();
        for f in files {
            if let Ok(t) = std::fs::read_to_string(&f) {
                if let Ok(v) = serde_json::from_str::<Value>(&t) {
                    if v["check"] == "histories" || v["check"] == "corpus" {
                        if let Ok(h) = serde_json::from_value::<History>(v["case"].clone()) {
                            out.push(h);
                        }
                    }
                }
            }
        }
    }
    out
}

macro_rules! hist_property {
    ($modname:ident, $id:expr, $profile:expr, $quick_cases:expr, $thorough_cases:expr, $thorough_ops:expr, $nt:expr, $rule:expr, $crash:expr) => {
        pub mod $modname {
            use super::*;
            const PROFILE: Profile = $profile;
            fn nt(f: &Facts, h: &History) -> bool {
                let g: fn(&Facts, &History) -> bool = $nt;
                g(f, h)
            }
            fn run(ctx: &ShardCtx) -> ShardResult {
                let max_ops = ctx.tier.pick(PROFILE.max_ops, $thorough_ops);
                let cases = ctx.tier.pick($quick_cases, $thorough_cases);
                run_proptest(ctx, hist::history_strategy(PROFILE, max_ops), cases, 1, |h, stats| run_one(h, stats, nt))
            }
            fn run_fuzz(ctx: &ShardCtx) -> ShardResult {
                crate::engine::run_fuzz(ctx, "hist_target", $id)
            }
            fn run_corpus(ctx: &ShardCtx) -> ShardResult {
                run_list(ctx, corpus($id).into_iter(), |h, stats| run_one(h, stats, nt))
            }
            pub fn property() -> Property {
                Property {
                    id: $id,
                    subs: vec![
                        SubCheck { name: "corpus", shards: |_| 1, run: run_corpus, replay: replay_hist,
                            rule: "committed regression histories from /verif/corpus (shrunk failures of seeded mutations), replayed first", exe_env: None },
                        SubCheck { name: "histories", shards: |t: Tier| t.pick(8, 16), run, replay: replay_hist, rule: $rule, exe_env: None },
                        SubCheck { name: "fuzz", shards: |t: Tier| t.pick(0, 4), run: run_fuzz, replay: replay_hist,
                            rule: "thorough tier only: libFuzzer (cargo-fuzz, AddressSanitizer) campaigns (120000 executions per shard for histories, 200000 for storage sequences) on a target that decodes bytes (arbitrary::Unstructured) into the same History type and runs the same interpreter and oracles; non-trivial = index reuse or a stale access on an occupied index; counts come from the target", exe_env: None },
                    ],
                    crash_is_violation: $crash,
                    assumptions: &[
                        "reference model of entity timeline / component maps in harness/src/hist.rs is correct",
                        "hibitset, shred, shrev, crossbeam-queue are trusted dependencies",
                    ],
                }
            }
        }
    };
}

hist_property!(
    c01, "C01", hist::ALLOC_PROFILE, 10000, 120_000, 200,
    |f, _| f.index_reuse > 0,
    "proptest histories vec(op,0..=40 quick / 0..=200 thorough) over all creation paths (create_entity built/dropped, create_iter, Entities::create/create_iter/build_entity built/dropped, LazyUpdate::create_entity, creations inside lazy closures), all deletion paths and maintain; oracle: every returned handle is new, positive generation, index not occupied by a not-yet-dead entity, (&entities).join() has no duplicate index, allocator self-check hook; non-trivial = the history reuses at least one index; distinct = distinct case hash",
    false
);

hist_property!(
    c02, "C02", hist::ALLOC_PROFILE, 10000, 120_000, 200,
    |f, _| f.stale_delete > 0 || f.failing_batch > 0,
    "histories as C01; after every step Entities::is_alive of every handle ever returned, World::is_alive (dead => false, merged live => true), results of delete_entity / delete_entities (failing position, named entity) / Entities::delete and (&entities).join() are compared with the timeline model; non-trivial = the history contains a deletion through a dead handle or a failing batch",
    false
);

hist_property!(
    c17, "C17", hist::ALLOC_PROFILE, 10000, 80_000, 400,
    |f, _| f.death_then_creation > 0,
    "histories as C01 (thorough: up to 400 ops); oracle on every creation: index < running peak of simultaneously not-yet-dead entities, a never-used index only when every lower index is occupied, allocator self-check (no dead index missing from the free list); non-trivial = a deletion took effect before a later creation",
    false
);

hist_property!(
    c03, "C03", hist::STALE_PROFILE, 8000, 100_000, 150,
    |f, _| f.stale_access_occupied_with_comp > 0,
    "histories biased towards dead handles whose index has been re-occupied; every handle-taking access path (get, contains, get_mut, insert, remove, entry, get_mut_or_default, lending-join get incl. maybe(), restricted get_other/get_other_mut, lazy insert/remove) is exercised through stale handles on every storage kind, plus a read scan of all dead handles x all storages after every step; non-trivial = a mutating access through a stale handle whose index is occupied by a newer entity holding a component in that storage",
    true
);

hist_property!(
    c05, "C05", hist::PURGE_PROFILE, 8000, 100_000, 150,
    |f, _| f.multi_storage_death_then_reuse > 0,
    "histories over 3..8 storages of mixed kinds, each made known through a generated path (register, register_with_storage, setup of Read/WriteStorage, Dispatcher::setup, World::exec); after every step every storage's mask, count and every (handle, storage) lookup is compared with the model; non-trivial = an entity holding components in >= 2 storages died and its index was reused later",
    true
);

hist_property!(
    c09, "C09", hist::LAZY_PROFILE, 8000, 100_000, 150,
    |f, _| f.max_queue_in_one_maintain >= 3 && f.lazy_nested > 0 && (f.lazy_dead_target > 0 || f.lazy_reused_target > 0),
    "histories mixing lazy insert / insert_all / remove / lazy builders / closures (nested to depth 3; closures create, delete, insert, observe and queue more) with direct operations and maintains; the execution log written by the closures is compared entry by entry with the model's FIFO processing, each closure's own observation of aliveness/components is compared with the model state at that point; non-trivial = >= 3 actions in one maintain, a nested action, and a target that was dead or on a reused index",
    false
);
