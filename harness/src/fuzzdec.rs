//! Byte-level decoders (arbitrary::Unstructured) for the coverage-guided
//! fuzz targets: the same case types, interpreters and oracles as the
//! proptest engine, only the generator differs.

use arbitrary::{Result, Unstructured};

use crate::{
    hist::{EntryAct, ExecStep, History, Op, Sel},
    stoseq::{DelHow, Pool, SOp, SeqCase},
    zoo::{Kind, ALL_KINDS},
};

fn sel(u: &mut Unstructured) -> Result<Sel> {
    let x: u16 = u.arbitrary()?;
    Ok(match u.int_in_range(0..=2u8)? {
        0 => Sel::Any(x),
        1 => Sel::Live(x),
        _ => Sel::Dead(x),
    })
}

fn comps(u: &mut Unstructured) -> Result<Vec<(u8, u32)>> {
    let n = u.int_in_range(0..=3usize)?;
    (0..n).map(|_| Ok((u.int_in_range(0..=7u8)?, u.int_in_range(1..=999u32)?))).collect()
}

fn entry_act(u: &mut Unstructured) -> Result<EntryAct> {
    Ok(match u.int_in_range(0..=3u8)? {
        0 => EntryAct::OrInsert(u.int_in_range(1..=999)?),
        1 => EntryAct::Replace(u.int_in_range(1..=999)?),
        2 => EntryAct::Remove,
        _ => EntryAct::GetMut(u.int_in_range(1..=999)?),
    })
}

fn exec_steps(u: &mut Unstructured, depth: u32) -> Result<Vec<ExecStep>> {
    let n = u.int_in_range(0..=3usize)?;
    let mut v = vec![];
    for _ in 0..n {
        let hi = if depth > 0 { 13 } else { 12 };
        v.push(match u.int_in_range(0..=hi as u8)? {
            0 => {
                let k = u.int_in_range(1..=3usize)?;
                ExecStep::Observe((0..k).map(|_| sel(u)).collect::<Result<Vec<_>>>()?)
            }
            1 => ExecStep::CreateAtomic,
            2 => ExecStep::CreateNow,
            3 => ExecStep::DeleteNow(sel(u)?),
            4 => ExecStep::DeleteAtomic(sel(u)?),
            5 => ExecStep::InsertNow(u.int_in_range(0..=7)?, sel(u)?, u.int_in_range(1..=999)?),
            6 => ExecStep::LazyInsert(u.int_in_range(0..=7)?, sel(u)?, u.int_in_range(1..=999)?),
            7 => ExecStep::LazyRemove(u.int_in_range(0..=7)?, sel(u)?),
            8 => ExecStep::CreateNowWith(u.int_in_range(0..=7)?, u.int_in_range(1..=999)?),
            9 => ExecStep::OtherWorld,
            10 => ExecStep::LazyCreateWith(u.int_in_range(0..=7)?, u.int_in_range(1..=999)?),
            11 => ExecStep::Chain(u.int_in_range(1..=140)?),
            12 => ExecStep::MaintainInside,
            _ => ExecStep::Nested(exec_steps(u, depth - 1)?),
        });
    }
    Ok(v)
}

fn op(u: &mut Unstructured) -> Result<Op> {
    let s = |u: &mut Unstructured| u.int_in_range(0..=7u8);
    let p = |u: &mut Unstructured| u.int_in_range(1..=999u32);
    Ok(match u.int_in_range(0..=24u8)? {
        24 => Op::Retrieve(u.arbitrary()?),
        22 => Op::Deserialize(u.int_in_range(0..=3)?),
        23 => Op::SetEmission(u.int_in_range(0..=7)?, u.arbitrary()?),
        24 => Op::DeleteTwice(sel(u)?),
        0 => Op::CreateNow { comps: comps(u)?, built: u.int_in_range(0..=7u8)? != 0 },
        1 => Op::CreateIterNow(u.int_in_range(0..=5)?),
        2 => Op::CreateAtomic,
        3 => Op::CreateIterAtomic(u.int_in_range(0..=5)?),
        4 => Op::BuildEntity { comps: comps(u)?, built: u.int_in_range(0..=3u8)? != 0 },
        5 => Op::LazyCreate { comps: comps(u)? },
        6 => Op::DeleteNow(sel(u)?),
        7 => {
            let n = u.int_in_range(1..=4usize)?;
            Op::DeleteBatch((0..n).map(|_| sel(u)).collect::<Result<Vec<_>>>()?)
        }
        8 => Op::DeleteAtomic(sel(u)?),
        9 => Op::DeleteAll,
        10 => Op::Maintain,
        11 => Op::Insert(s(u)?, sel(u)?, p(u)?),
        12 => Op::Remove(s(u)?, sel(u)?),
        13 => Op::GetMut(s(u)?, sel(u)?, p(u)?),
        14 => Op::Entry(s(u)?, sel(u)?, entry_act(u)?),
        15 => Op::GetOrDefault(s(u)?, sel(u)?, p(u)?),
        16 => Op::LendGet(s(u)?, sel(u)?, p(u)?),
        17 => Op::RestrictOther(s(u)?, sel(u)?, p(u)?),
        18 => Op::LazyInsert(s(u)?, sel(u)?, p(u)?),
        19 => {
            let n = u.int_in_range(0..=3usize)?;
            Op::LazyInsertAll(s(u)?, (0..n).map(|_| Ok((sel(u)?, p(u)?))).collect::<Result<Vec<_>>>()?)
        }
        20 => Op::LazyRemove(s(u)?, sel(u)?),
        _ => Op::LazyExec(exec_steps(u, 2)?),
    })
}

pub fn decode_history(data: &[u8]) -> Option<History> {
    let mut u = Unstructured::new(data);
    let n = u.int_in_range(1..=6usize).ok()?;
    let start = u.int_in_range(0..=ALL_KINDS.len() - 1).ok()?;
    let step = [1usize, 5, 7, 11][u.int_in_range(0..=3usize).ok()?];
    let mut storages = vec![];
    for i in 0..n {
        let k = ALL_KINDS[(start + i * step) % ALL_KINDS.len()];
        if !storages.iter().any(|(x, _): &(Kind, u8)| *x == k) {
            storages.push((k, u.int_in_range(0..=8u8).ok()? | if u.int_in_range(0..=3u8).ok()? == 0 { 0x80 } else { 0 }));
        }
    }
    let mut ops = vec![];
    while !u.is_empty() && ops.len() < 90 {
        match op(&mut u) {
            Ok(o) => ops.push(o),
            Err(_) => break,
        }
    }
    Some(History { storages, ops })
}

fn sop(u: &mut Unstructured) -> Result<SOp> {
    let s = |u: &mut Unstructured| u.arbitrary::<u16>();
    let p = |u: &mut Unstructured| u.int_in_range(1..=999u32);
    let b = |u: &mut Unstructured| u.arbitrary::<bool>();
    let pat = |u: &mut Unstructured| -> Result<Vec<bool>> {
        let n = u.int_in_range(1..=5usize)?;
        (0..n).map(|_| u.arbitrary::<bool>()).collect()
    };
    let take = |u: &mut Unstructured| -> Result<Option<u8>> {
        Ok(if u.arbitrary::<bool>()? { Some(u.int_in_range(0..=3u8)?) } else { None })
    };
    Ok(match u.int_in_range(0..=30u8)? {
        28 => SOp::DrainFiltered { take: take(u)?, lend: b(u)?, filter: pat(u)? },
        29 => SOp::RestrictProbe(s(u)?, s(u)?, p(u)?),
        30 => SOp::CreateAtomic,
        0 | 1 | 2 => SOp::Insert(s(u)?, p(u)?),
        3 => SOp::Remove(s(u)?),
        4 => SOp::GenericRemove(s(u)?),
        5 => SOp::Probe(s(u)?),
        6 => SOp::GetMut(s(u)?, p(u)?, b(u)?),
        7 => SOp::OrInsert(s(u)?, p(u)?, b(u)?),
        8 => SOp::OrInsertWith(s(u)?, p(u)?, b(u)?),
        9 => SOp::Replace(s(u)?, p(u)?),
        10 => SOp::OccGetMut(s(u)?, p(u)?, b(u)?),
        11 => SOp::OccInsert(s(u)?, p(u)?),
        12 => SOp::OccRemove(s(u)?),
        13 => SOp::OccIntoMut(s(u)?, p(u)?, b(u)?),
        14 => SOp::VacInsert(s(u)?, p(u)?, b(u)?),
        15 => {
            let n = u.int_in_range(1..=5usize)?;
            SOp::EntriesJoin((0..n).map(|_| u.int_in_range(0..=3u8)).collect::<Result<Vec<_>>>()?, p(u)?)
        }
        16 => SOp::GetOrDefault(s(u)?, p(u)?, b(u)?),
        17 => SOp::Drain(take(u)?),
        18 => SOp::Clear,
        19 => SOp::JoinMut(pat(u)?, p(u)?),
        20 => SOp::LendJoinMut(pat(u)?, p(u)?, take(u)?),
        21 => SOp::MaybeJoinMut(pat(u)?, p(u)?),
        22 => SOp::RestrictMut(pat(u)?, p(u)?, b(u)?),
        23 => SOp::SliceWrite(s(u)?, p(u)?),
        24 => SOp::DeleteEntity(
            s(u)?,
            match u.int_in_range(0..=3u8)? {
                0 => DelHow::Now,
                1 => DelHow::BatchWithNext,
                2 => DelHow::FailingBatch,
                _ => DelHow::AtomicMaintain,
            },
        ),
        25 => SOp::DeleteAll,
        26 => SOp::CreateEntity,
        _ => SOp::LazyInsertMaintain(s(u)?, p(u)?),
    })
}

pub fn decode_seq(data: &[u8]) -> Option<SeqCase> {
    let mut u = Unstructured::new(data);
    let kind = ALL_KINDS[u.int_in_range(0..=ALL_KINDS.len() - 1).ok()?];
    let pool = match u.int_in_range(0..=15u8).ok()? {
        0..=8 => Pool::Dense(u.int_in_range(1..=39u8).ok()?),
        9..=14 => {
            let total = u.int_in_range(64..=2999u16).ok()?;
            let n = u.int_in_range(1..=12usize).ok()?;
            Pool::Sparse { total, picks: (0..n).map(|_| u.arbitrary::<u16>()).collect::<Result<Vec<_>>>().ok()? }
        }
        // the half-million-entity pool is too slow for a fuzz loop; proptest covers it
        _ => Pool::Sparse { total: 2999, picks: vec![0, 65535, 1400, 1399, 4200] },
    };
    let mut ops = vec![];
    while !u.is_empty() && ops.len() < 150 {
        match sop(&mut u) {
            Ok(o) => ops.push(o),
            Err(_) => break,
        }
    }
    Some(SeqCase { kind, pool, ops })
}
