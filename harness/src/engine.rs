//! Shared machinery: statistics, proptest driver, worker/orchestrator process
//! model, evidence and replay files.

use std::{
    cell::RefCell,
    collections::{BTreeMap, HashSet},
    fmt::Debug,
    hash::{Hash, Hasher},
    io::Write,
    panic::{catch_unwind, AssertUnwindSafe},
    path::{Path, PathBuf},
    process::{Command, Stdio},
    time::{Duration, Instant},
};

use proptest::{
    strategy::Strategy,
    test_runner::{Config, RngSeed, TestCaseError, TestError, TestRunner},
};
use serde::{de::DeserializeOwned, Deserialize, Serialize};
use serde_json::{json, Value};

pub const VERIF_DIR: &str = "/verif";

#[derive(Clone, Copy, Debug, PartialEq, Eq, Serialize, Deserialize)]
pub enum Tier {
    Quick,
    Thorough,
}

impl Tier {
    pub fn name(self) -> &'static str {
        match self {
            Tier::Quick => "quick",
            Tier::Thorough => "thorough",
        }
    }

    pub fn parse(s: &str) -> Option<Tier> {
        match s {
            "quick" => Some(Tier::Quick),
            "thorough" => Some(Tier::Thorough),
            _ => None,
        }
    }

    /// `q` for quick, `t` for thorough.
    pub fn pick<T>(self, q: T, t: T) -> T {
        match self {
            Tier::Quick => q,
            Tier::Thorough => t,
        }
    }
}

/// A failed oracle.
#[derive(Clone, Debug, Serialize, Deserialize)]
pub struct Violation {
    /// Property whose oracle failed (a shared interpreter carries the oracles
    /// of several properties).
    pub prop: String,
    /// Short stable cause signature (used to key known findings).
    pub signature: String,
    pub msg: String,
}

impl Violation {
    pub fn new(prop: &str, signature: &str, msg: impl Into<String>) -> Self {
        Violation {
            prop: prop.to_string(),
            signature: signature.to_string(),
            msg: msg.into(),
        }
    }
}

pub type Verdict = Result<(), Violation>;

#[macro_export]
macro_rules! ensure {
    ($prop:expr, $sig:expr, $cond:expr, $($fmt:tt)+) => {
        if !($cond) {
            return Err($crate::engine::Violation::new($prop, $sig, format!($($fmt)+)));
        }
    };
}

/// Per-shard statistics.
#[derive(Default, Serialize, Deserialize)]
pub struct Stats {
    pub evaluations: u64,
    pub nontrivial: HashSet<u64>,
    pub labels: BTreeMap<String, u64>,
    pub samples: Vec<Value>,
    /// Cases cut short because the oracle of *another* property failed first.
    pub aborted_other: BTreeMap<String, u64>,
    pub exhaustive: Option<bool>,
    #[serde(skip)]
    pub frozen: bool,
}

pub const MAX_SAMPLES: usize = 3;

impl Stats {
    pub fn label(&mut self, name: &str) {
        if !self.frozen {
            *self.labels.entry(name.to_string()).or_insert(0) += 1;
        }
    }

    pub fn label_n(&mut self, name: &str, n: u64) {
        if !self.frozen {
            *self.labels.entry(name.to_string()).or_insert(0) += n;
        }
    }

    /// Records one executed case.
    pub fn case<T: Serialize + Hash>(&mut self, case: &T, nontrivial: bool) {
        if self.frozen {
            return;
        }
        self.evaluations += 1;
        if nontrivial {
            let mut h = std::collections::hash_map::DefaultHasher::new();
            case.hash(&mut h);
            let fresh = self.nontrivial.insert(h.finish());
            if fresh && self.samples.len() < MAX_SAMPLES {
                if let Ok(v) = serde_json::to_value(case) {
                    // keep samples readable
                    let s = v.to_string();
                    if s.len() < 6000 || self.samples.is_empty() {
                        self.samples.push(v);
                    }
                }
            }
        }
    }

    pub fn merge(&mut self, other: Stats) {
        self.evaluations += other.evaluations;
        self.nontrivial.extend(other.nontrivial);
        for (k, v) in other.labels {
            *self.labels.entry(k).or_insert(0) += v;
        }
        for (k, v) in other.aborted_other {
            *self.aborted_other.entry(k).or_insert(0) += v;
        }
        for s in other.samples {
            if self.samples.len() < MAX_SAMPLES {
                self.samples.push(s);
            }
        }
        self.exhaustive = match (self.exhaustive, other.exhaustive) {
            (None, x) => x,
            (x, None) => x,
            (Some(a), Some(b)) => Some(a && b),
        };
    }
}

#[derive(Serialize, Deserialize)]
pub struct Failure {
    pub violation: Violation,
    pub case: Value,
}

#[derive(Serialize, Deserialize, Default)]
pub struct ShardResult {
    pub stats: Stats,
    pub failure: Option<Failure>,
}

pub struct ShardCtx {
    pub prop: &'static str,
    pub tier: Tier,
    pub seed: u64,
    pub shard: usize,
    pub nshards: usize,
    pub inflight: Option<PathBuf>,
}

impl ShardCtx {
    /// Seed for this shard; a pure function of (VERIF_SEED, shard, salt).
    pub fn shard_seed(&self, salt: u64) -> u64 {
        let mut x = self
            .seed
            .wrapping_mul(0x9E37_79B9_7F4A_7C15)
            .wrapping_add((self.shard as u64 + 1).wrapping_mul(0xBF58_476D_1CE4_E5B9))
            .wrapping_add(salt.wrapping_mul(0x94D0_49BB_1331_11EB));
        x ^= x >> 30;
        x = x.wrapping_mul(0xBF58_476D_1CE4_E5B9);
        x ^= x >> 27;
        x = x.wrapping_mul(0x94D0_49BB_1331_11EB);
        x ^ (x >> 31)
    }

    pub fn journal(&self, case: &Value) {
        if let Some(p) = &self.inflight {
            let _ = std::fs::write(p, case.to_string());
        }
    }
}

thread_local! {
    static LAST_PANIC: RefCell<Option<String>> = RefCell::new(None);
    static FOCUS: RefCell<String> = RefCell::new(String::new());
}

/// The property whose check is running on this thread. Interpreters that carry the oracles of
/// several properties evaluate all of them at a step and prefer the focus property's violation.
pub fn set_focus(prop: &str) {
    FOCUS.with(|f| *f.borrow_mut() = prop.to_string());
}

pub fn focus() -> String {
    FOCUS.with(|f| f.borrow().clone())
}

/// Picks the violation to report out of all oracle failures of one step.
pub fn pick_violation(mut all: Vec<Violation>) -> Verdict {
    if all.is_empty() {
        return Ok(());
    }
    let f = focus();
    if let Some(i) = all.iter().position(|v| v.prop == f) {
        return Err(all.swap_remove(i));
    }
    Err(all.swap_remove(0))
}

/// Quiet panic hook that remembers the message (per thread).
pub fn install_panic_hook() {
    std::panic::set_hook(Box::new(|info| {
        let msg = if let Some(s) = info.payload().downcast_ref::<&str>() {
            s.to_string()
        } else if let Some(s) = info.payload().downcast_ref::<String>() {
            s.clone()
        } else {
            "<non-string panic>".to_string()
        };
        let loc = info
            .location()
            .map(|l| format!(" at {}:{}", l.file(), l.line()))
            .unwrap_or_default();
        LAST_PANIC.with(|p| *p.borrow_mut() = Some(format!("{}{}", msg, loc)));
    }));
}

pub fn take_last_panic() -> Option<String> {
    LAST_PANIC.with(|p| p.borrow_mut().take())
}

/// Runs `f`, turning an escaping panic into a violation of `prop`.
pub fn guard<R>(prop: &str, f: impl FnOnce() -> Result<R, Violation>) -> Result<R, Violation> {
    match catch_unwind(AssertUnwindSafe(f)) {
        Ok(r) => r,
        Err(_) => Err(Violation::new(
            prop,
            "panic",
            format!(
                "unexpected panic: {}",
                take_last_panic().unwrap_or_else(|| "?".into())
            ),
        )),
    }
}

/// Drives `f` over `cases` generated cases. `f` must record the case in the
/// stats itself (it knows whether it was non-trivial). Violations of other
/// properties than `ctx.prop` abort the case and are only counted.
pub fn run_proptest<T, S>(
    ctx: &ShardCtx,
    strategy: S,
    cases: u32,
    salt: u64,
    mut f: impl FnMut(&T, &mut Stats) -> Verdict,
) -> ShardResult
where
    T: Debug + Serialize + Clone,
    S: Strategy<Value = T>,
{
    let stats = RefCell::new(Stats::default());
    let violation: RefCell<Option<Violation>> = RefCell::new(None);
    let f = RefCell::new(f);
    let config = Config {
        cases,
        rng_seed: RngSeed::Fixed(ctx.shard_seed(salt)),
        failure_persistence: None,
        max_shrink_iters: 4000,
        // shrinking stops after two minutes with the smallest failing case found so far (some cases build
        // worlds of half a million entities); only the size of the saved reproduction depends on this
        max_shrink_time: 120_000,
        max_local_rejects: 1 << 20,
        max_global_rejects: 1 << 20,
        verbose: 0,
        ..Config::default()
    };
    let mut runner = TestRunner::new(config);
    let prop = ctx.prop;
    let res = runner.run(&strategy, |case| {
        let mut stats = stats.borrow_mut();
        if ctx.inflight.is_some() && !stats.frozen {
            if let Ok(v) = serde_json::to_value(&case) {
                ctx.journal(&v);
            }
        }
        let r = guard(prop, || (f.borrow_mut())(&case, &mut stats));
        if std::env::var_os("VERIF_DEBUG_RSS").is_some() {
            // development aid: report cases after which the resident set has grown by more than 32 MiB
            thread_local!(static LAST: std::cell::Cell<u64> = std::cell::Cell::new(0));
            let pages: u64 = std::fs::read_to_string("/proc/self/statm").ok().and_then(|t| t.split_whitespace().nth(1).and_then(|x| x.parse().ok())).unwrap_or(0);
            let mb = pages * 4096 / (1 << 20);
            LAST.with(|l| {
                if mb > l.get() + 32 {
                    let j = serde_json::to_string(&case).unwrap_or_default();
                    eprintln!("RSS {} MiB (+{}) after case {}", mb, mb - l.get(), &j[..j.len().min(600)]);
                    let _ = std::fs::write(format!("/tmp/rss-case-{}.json", mb), format!("{{\"check\":\"faults\",\"case\":{}}}", j));
                    l.set(mb);
                }
            });
        }
        match r {
            Ok(()) => Ok(()),
            Err(v) if v.prop != prop => {
                if !stats.frozen {
                    *stats.aborted_other.entry(v.prop.clone()).or_insert(0) += 1;
                }
                Ok(())
            }
            Err(v) => {
                stats.frozen = true;
                let msg = v.msg.clone();
                *violation.borrow_mut() = Some(v);
                Err(TestCaseError::fail(msg))
            }
        }
    });
    let failure = match res {
        Ok(()) => None,
        Err(TestError::Fail(_, case)) => Some(Failure {
            violation: violation.into_inner().unwrap_or_else(|| Violation::new(prop, "?", "?")),
            case: serde_json::to_value(&case).unwrap_or(Value::Null),
        }),
        Err(TestError::Abort(reason)) => Some(Failure {
            violation: Violation::new("INFRA", "abort", format!("proptest aborted: {}", reason)),
            case: Value::Null,
        }),
    };
    ShardResult { stats: stats.into_inner(), failure }
}

/// Runs `f` over an explicit list of cases (exhaustive enumeration, corpus).
pub fn run_list<T: Serialize + Clone>(
    ctx: &ShardCtx,
    cases: impl Iterator<Item = T>,
    mut f: impl FnMut(&T, &mut Stats) -> Verdict,
) -> ShardResult {
    let mut stats = Stats::default();
    let prop = ctx.prop;
    for (i, case) in cases.enumerate() {
        if i % ctx.nshards != ctx.shard {
            continue;
        }
        if ctx.inflight.is_some() {
            if let Ok(v) = serde_json::to_value(&case) {
                ctx.journal(&v);
            }
        }
        match guard(prop, || f(&case, &mut stats)) {
            Ok(()) => {}
            Err(v) if v.prop != prop => {
                *stats.aborted_other.entry(v.prop.clone()).or_insert(0) += 1;
            }
            Err(v) => {
                return ShardResult {
                    stats,
                    failure: Some(Failure {
                        violation: v,
                        case: serde_json::to_value(&case).unwrap_or(Value::Null),
                    }),
                }
            }
        }
    }
    ShardResult { stats, failure: None }
}

/// One independently sharded part of a property's check.
pub struct SubCheck {
    pub name: &'static str,
    /// Number of worker processes for this part.
    pub shards: fn(Tier) -> usize,
    pub run: fn(&ShardCtx) -> ShardResult,
    /// Re-executes one saved case, bypassing the generator.
    pub replay: fn(&Value) -> Verdict,
    /// Human description of generation + non-triviality rule.
    pub rule: &'static str,
    /// Environment variable naming another build of this binary that must
    /// execute the workers of this part (C12: build without a cargo feature).
    pub exe_env: Option<&'static str>,
}

pub struct Property {
    pub id: &'static str,
    pub subs: Vec<SubCheck>,
    /// Crash (signal) inside a case counts as a violation of this property.
    pub crash_is_violation: bool,
    pub assumptions: &'static [&'static str],
}

pub fn parse_case<T: DeserializeOwned>(prop: &str, v: &Value) -> Result<T, Violation> {
    serde_json::from_value(v.clone())
        .map_err(|e| Violation::new("INFRA", "replay-parse", format!("{}: cannot parse case: {}", prop, e)))
}

// ---------------------------------------------------------------------------
// known findings

#[derive(Deserialize, Debug, Clone)]
pub struct Finding {
    pub status: String, // "known" | "fixed"
    pub property: String,
    pub signature: String,
    pub description: String,
    #[serde(default)]
    pub commit: Option<String>,
}

pub fn load_findings() -> Vec<Finding> {
    let p = Path::new(VERIF_DIR).join("known_findings.json");
    match std::fs::read_to_string(&p) {
        Ok(s) => {
            #[derive(Deserialize)]
            struct File {
                findings: Vec<Finding>,
            }
            serde_json::from_str::<File>(&s).map(|f| f.findings).unwrap_or_default()
        }
        Err(_) => vec![],
    }
}

// ---------------------------------------------------------------------------
// orchestrator

fn run_dir(prop: &str) -> PathBuf {
    let d = Path::new(VERIF_DIR).join("harness/target/run").join(prop);
    let _ = std::fs::create_dir_all(&d);
    d
}

struct Job {
    sub: usize,
    shard: usize,
    nshards: usize,
}

pub fn worker_main(p: &Property, args: &[String]) -> i32 {
    // worker <ID> <sub> <tier> <seed> <shard> <nshards> <outfile> <inflight>
    let sub_name = &args[0];
    let tier = Tier::parse(&args[1]).expect("tier");
    let seed: u64 = args[2].parse().expect("seed");
    let shard: usize = args[3].parse().expect("shard");
    let nshards: usize = args[4].parse().expect("nshards");
    let out = PathBuf::from(&args[5]);
    let inflight = PathBuf::from(&args[6]);
    let sub = p.subs.iter().find(|s| s.name == sub_name).expect("sub-check");
    install_panic_hook();
    set_focus(p.id);
    let ctx = ShardCtx {
        prop: p.id,
        tier,
        seed,
        shard,
        nshards,
        inflight: Some(inflight.clone()),
    };
    let res = (sub.run)(&ctx);
    let _ = std::fs::remove_file(&inflight);
    std::fs::write(&out, serde_json::to_vec(&res).expect("serialise result")).expect("write result");
    0
}

pub fn replay_main(p: &Property, file: &str) -> i32 {
    install_panic_hook();
    set_focus(p.id);
    let text = match std::fs::read_to_string(file) {
        Ok(t) => t,
        Err(e) => {
            eprintln!("cannot read {}: {}", file, e);
            return 2;
        }
    };
    let v: Value = match serde_json::from_str(&text) {
        Ok(v) => v,
        Err(e) => {
            eprintln!("cannot parse {}: {}", file, e);
            return 2;
        }
    };
    let sub_name = v["check"].as_str().unwrap_or("");
    let sub = match p.subs.iter().find(|s| s.name == sub_name) {
        Some(s) => s,
        None => {
            eprintln!("replay file names unknown sub-check {:?}", sub_name);
            return 2;
        }
    };
    match guard(p.id, || (sub.replay)(&v["case"])) {
        Ok(()) => {
            println!("replay {}: property {} held", file, p.id);
            0
        }
        Err(viol) if viol.prop == "INFRA" => {
            eprintln!("replay infrastructure problem: {}", viol.msg);
            2
        }
        Err(viol) if viol.prop != p.id => {
            println!(
                "replay {}: case aborted by the oracle of {} ({}); not a violation of {}",
                file, viol.prop, viol.msg, p.id
            );
            0
        }
        Err(viol) => {
            println!("replay {}: [{}] {}", file, viol.signature, viol.msg);
            println!("VIOLATION property={} replay={}", p.id, file);
            1
        }
    }
}

fn write_replay(prop: &str, sub: &str, seed: u64, failure: &Failure) -> PathBuf {
    let dir = Path::new(VERIF_DIR).join("replays").join(prop);
    let _ = std::fs::create_dir_all(&dir);
    let body = json!({
        "property": prop,
        "check": sub,
        "seed": seed,
        "signature": failure.violation.signature,
        "message": failure.violation.msg,
        "case": failure.case,
    });
    let text = serde_json::to_string_pretty(&body).unwrap();
    let mut h = std::collections::hash_map::DefaultHasher::new();
    failure.case.to_string().hash(&mut h);
    sub.hash(&mut h);
    let path = dir.join(format!("{}-{:016x}.json", sub, h.finish()));
    let _ = std::fs::write(&path, text);
    path
}

pub fn orchestrate(p: &Property, tier: Tier, only_sub: Option<&str>) -> i32 {
    let start = Instant::now();
    let seed: u64 = std::env::var("VERIF_SEED")
        .ok()
        .and_then(|s| s.trim().parse::<i64>().ok().map(|v| v as u64).or_else(|| s.trim().parse::<u64>().ok()))
        .unwrap_or(0);
    let max_par: usize = std::env::var("VERIF_JOBS")
        .ok()
        .and_then(|s| s.parse().ok())
        .unwrap_or(16);
    let timeout = Duration::from_secs(
        std::env::var("VERIF_TIMEOUT_S")
            .ok()
            .and_then(|s| s.parse().ok())
            .unwrap_or(tier.pick(900, 6 * 3600)),
    );
    let exe = std::env::current_exe().expect("current exe");
    let dir = run_dir(p.id);

    let mut jobs = vec![];
    for (si, sub) in p.subs.iter().enumerate() {
        if let Some(o) = only_sub {
            if o != sub.name {
                continue;
            }
        }
        // 0 shards = this part does not run in this tier
        let n = (sub.shards)(tier);
        for shard in 0..n {
            jobs.push(Job { sub: si, shard, nshards: n });
        }
    }

    struct Running {
        job: usize,
        child: std::process::Child,
        out: PathBuf,
        inflight: PathBuf,
        started: Instant,
    }
    let mut next = 0;
    let mut running: Vec<Running> = vec![];
    let mut merged: Vec<Stats> = p.subs.iter().map(|_| Stats::default()).collect();
    let mut failures: Vec<(usize, Failure)> = vec![];
    let mut infra: Vec<String> = vec![];
    let mut crashes: Vec<(usize, Value, String)> = vec![];

    while next < jobs.len() || !running.is_empty() {
        while next < jobs.len() && running.len() < max_par {
            let j = &jobs[next];
            let sub = &p.subs[j.sub];
            let out = dir.join(format!("{}-{}.json", sub.name, j.shard));
            let inflight = dir.join(format!("{}-{}.inflight", sub.name, j.shard));
            let _ = std::fs::remove_file(&out);
            let _ = std::fs::remove_file(&inflight);
            let worker_exe = match sub.exe_env {
                None => exe.clone(),
                Some(k) => match std::env::var(k) {
                    Ok(p) if Path::new(&p).exists() => PathBuf::from(p),
                    _ => {
                        infra.push(format!("{}: ${} does not name a built binary; run through verif.sh", sub.name, k));
                        next += 1;
                        continue;
                    }
                },
            };
            let child = Command::new(&worker_exe)
                .arg("worker")
                .arg(p.id)
                .arg(sub.name)
                .arg(tier.name())
                .arg(seed.to_string())
                .arg(j.shard.to_string())
                .arg(j.nshards.to_string())
                .arg(&out)
                .arg(&inflight)
                // glibc raises its mmap threshold dynamically after large frees; worlds of half a million
                // entities then come from the brk heap and fragment it (resident set grew by ~40 MiB per
                // such case until the OOM killer struck). A fixed threshold keeps big blocks in mmap.
                .env("MALLOC_MMAP_THRESHOLD_", "131072")
                .stdin(Stdio::null())
                .stdout(Stdio::inherit())
                .stderr(Stdio::inherit())
                .spawn()
                .expect("spawn worker");
            running.push(Running {
                job: next,
                child,
                out,
                inflight,
                started: Instant::now(),
            });
            next += 1;
        }
        let mut i = 0;
        let mut progressed = false;
        while i < running.len() {
            match running[i].child.try_wait() {
                Ok(Some(status)) => {
                    progressed = true;
                    let r = running.swap_remove(i);
                    let j = &jobs[r.job];
                    let sub = &p.subs[j.sub];
                    let parsed = std::fs::read(&r.out)
                        .ok()
                        .and_then(|b| serde_json::from_slice::<ShardResult>(&b).ok());
                    match parsed {
                        Some(res) if status.success() => {
                            merged[j.sub].merge(res.stats);
                            if let Some(f) = res.failure {
                                failures.push((j.sub, f));
                            }
                        }
                        _ => {
                            // crashed worker: look at the in-flight case
                            let case = std::fs::read_to_string(&r.inflight)
                                .ok()
                                .and_then(|s| serde_json::from_str::<Value>(&s).ok());
                            match case {
                                Some(c) => crashes.push((
                                    j.sub,
                                    c,
                                    format!("worker {}#{} died with {}", sub.name, j.shard, status),
                                )),
                                None => infra.push(format!(
                                    "worker {}#{} died with {} and left no in-flight case",
                                    sub.name, j.shard, status
                                )),
                            }
                        }
                    }
                    let _ = std::fs::remove_file(&r.out);
                    let _ = std::fs::remove_file(&r.inflight);
                }
                Ok(None) => {
                    if running[i].started.elapsed() > timeout {
                        let mut r = running.swap_remove(i);
                        let _ = r.child.kill();
                        let _ = r.child.wait();
                        let j = &jobs[r.job];
                        infra.push(format!(
                            "worker {}#{} exceeded the wall-clock bound of {:?} (inconclusive)",
                            p.subs[j.sub].name, j.shard, timeout
                        ));
                        progressed = true;
                    } else {
                        i += 1;
                    }
                }
                Err(e) => {
                    infra.push(format!("wait failed: {}", e));
                    running.swap_remove(i);
                    progressed = true;
                }
            }
        }
        if !progressed {
            std::thread::sleep(Duration::from_millis(5));
        }
    }

    // confirm crashes by re-running the in-flight case in a fresh child
    for (si, case, why) in crashes {
        let sub = &p.subs[si];
        let f = Failure {
            violation: Violation::new(p.id, "crash", format!("{} while executing the saved case", why)),
            case,
        };
        let path = write_replay(p.id, sub.name, seed, &f);
        // the confirmation run is bounded: a replay that does not finish is inconclusive, not a violation
        let st = Command::new(&exe)
            .arg("replay")
            .arg(p.id)
            .arg(&path)
            .env("MALLOC_MMAP_THRESHOLD_", "131072")
            .stdout(Stdio::null())
            .stderr(Stdio::null())
            .spawn()
            .and_then(|mut child| {
                let started = Instant::now();
                loop {
                    if let Some(st) = child.try_wait()? {
                        return Ok(Some(st));
                    }
                    if started.elapsed() > Duration::from_secs(900) {
                        let _ = child.kill();
                        let _ = child.wait();
                        return Ok(None);
                    }
                    std::thread::sleep(Duration::from_millis(50));
                }
            });
        let st = match st {
            Ok(Some(s)) => Ok(s),
            Ok(None) => {
                infra.push(format!("{}: the confirmation replay exceeded 900 s (inconclusive); replay={}", why, path.display()));
                continue;
            }
            Err(e) => Err(e),
        };
        let reproduced = matches!(&st, Ok(s) if !s.success() && s.code() != Some(2) && s.code() != Some(0));
        let by_signal = matches!(&st, Ok(s) if s.code().is_none());
        if (reproduced || by_signal) && p.crash_is_violation {
            failures.push((si, f));
        } else if reproduced || by_signal {
            infra.push(format!(
                "{}: reproducible crash outside this property's claim; replay={}",
                why,
                path.display()
            ));
        } else {
            infra.push(format!("{}: crash did not reproduce from the saved case", why));
            let _ = std::fs::remove_file(&path);
        }
    }

    // report
    let findings = load_findings();
    let mut violations = 0;
    let mut known_hits = 0;
    let mut lines = vec![];
    for (si, f) in &failures {
        let sub = &p.subs[*si];
        if f.violation.prop == "INFRA" {
            infra.push(format!("{}: {}", sub.name, f.violation.msg));
            continue;
        }
        let known = findings.iter().find(|k| {
            k.status == "known" && k.property == p.id && k.signature == f.violation.signature
        });
        if let Some(k) = known {
            known_hits += 1;
            lines.push(format!(
                "KNOWN-FINDING: property={} {} [{}]",
                p.id, k.description, k.signature
            ));
            continue;
        }
        let path = write_replay(p.id, sub.name, seed, f);
        violations += 1;
        lines.push(format!(
            "{} / {}: [{}] {}",
            p.id, sub.name, f.violation.signature, f.violation.msg
        ));
        lines.push(format!("VIOLATION property={} replay={}", p.id, path.display()));
    }
    // known findings that are listed are always announced
    for k in findings.iter().filter(|k| k.status == "known" && k.property == p.id) {
        let already = lines.iter().any(|l| l.starts_with("KNOWN-FINDING") && l.contains(&k.signature));
        if !already {
            lines.push(format!(
                "KNOWN-FINDING: property={} {} [{}]",
                p.id, k.description, k.signature
            ));
        }
    }

    // evidence
    let wall = start.elapsed().as_secs_f64();
    let mut total = Stats::default();
    let mut parts = serde_json::Map::new();
    let mut rules = vec![];
    for (si, sub) in p.subs.iter().enumerate() {
        if only_sub.map(|o| o != sub.name).unwrap_or(false) {
            continue;
        }
        let s = std::mem::take(&mut merged[si]);
        parts.insert(
            sub.name.to_string(),
            json!({
                "evaluations": s.evaluations,
                "distinct_nontrivial": s.nontrivial.len(),
                "labels": s.labels,
                "aborted_by_other_property_oracle": s.aborted_other,
                "exhaustive": s.exhaustive,
                "shards": (sub.shards)(tier),
            }),
        );
        rules.push(format!("[{}] {}", sub.name, sub.rule));
        // hashes of different sub-checks never collide in meaning: salt them
        let mut salted = Stats::default();
        salted.evaluations = s.evaluations;
        salted.labels = s.labels.iter().map(|(k, v)| (format!("{}.{}", sub.name, k), *v)).collect();
        salted.nontrivial = s.nontrivial.iter().map(|h| h ^ ((si as u64 + 1) << 56)).collect();
        salted.samples = s
            .samples
            .into_iter()
            .map(|c| json!({"check": sub.name, "case": c}))
            .collect();
        salted.aborted_other = s.aborted_other;
        salted.exhaustive = s.exhaustive;
        // interleave samples from all parts
        let keep: Vec<Value> = salted.samples.drain(..).take(2).collect();
        total.merge(salted);
        total.samples.extend(keep);
    }
    total.samples.truncate(8);
    let all_exhaustive = total.exhaustive == Some(true)
        && parts.values().all(|v| v["exhaustive"] == json!(true));
    let evidence = json!({
        "property_id": p.id,
        "tier": tier.name(),
        "seed": seed as i64,
        "level": "exploration",
        "coverage": {
            "evaluations": total.evaluations,
            "distinct_nontrivial": total.nontrivial.len(),
            "rule": rules.join(" || "),
            "samples": total.samples,
            "exhaustive": all_exhaustive,
            "labels": total.labels,
            "parts": parts,
            "aborted_by_other_property_oracle": total.aborted_other,
            "known_findings_hit": known_hits,
            "infrastructure_notes": infra,
        },
        "assumptions": p.assumptions,
        "wall_s": wall,
        "violations": violations,
    });
    // dev helpers that run the checks against a deliberately broken tree point this elsewhere
    let evdir = std::env::var("VERIF_EVIDENCE_DIR").map(PathBuf::from).unwrap_or_else(|_| Path::new(VERIF_DIR).join("evidence"));
    let _ = std::fs::create_dir_all(&evdir);
    if only_sub.is_none() {
        let _ = std::fs::write(
            evdir.join(format!("{}.json", p.id)),
            serde_json::to_string_pretty(&evidence).unwrap(),
        );
    }

    let stdout = std::io::stdout();
    let mut o = stdout.lock();
    for l in &lines {
        let _ = writeln!(o, "{}", l);
    }
    let _ = writeln!(
        o,
        "{} {} seed={} evaluations={} distinct_nontrivial={} violations={} wall={:.1}s",
        p.id,
        tier.name(),
        seed,
        total.evaluations,
        total.nontrivial.len(),
        violations,
        wall
    );
    for n in &infra {
        let _ = writeln!(o, "INCONCLUSIVE: {}", n);
    }
    if violations > 0 {
        1
    } else if !infra.is_empty() {
        2
    } else {
        0
    }
}

// ---------------------------------------------------------------------------
// coverage-guided engine (libFuzzer through cargo-fuzz); thorough tier only

/// Runs one libFuzzer campaign of `target` (built by verif.sh with `cargo +nightly fuzz build`)
/// for the properties in `props`. The target decodes bytes into the same case type and calls the
/// same interpreter + oracle as the proptest engine; a violation aborts the target after it wrote
/// the decoded case as a replay file.
pub fn run_fuzz(ctx: &ShardCtx, target: &str, props: &str) -> ShardResult {
    let mut stats = Stats::default();
    let bin = Path::new(VERIF_DIR).join("harness/fuzz/target/x86_64-unknown-linux-gnu/release").join(target);
    if !bin.exists() {
        stats.label("fuzz_target_not_built_(engine_skipped)");
        return ShardResult { stats, failure: None };
    }
    let dir = run_dir(ctx.prop).join(format!("fuzz-{}-{}", target, ctx.shard));
    let _ = std::fs::remove_dir_all(&dir);
    let corpus = dir.join("corpus");
    let _ = std::fs::create_dir_all(&corpus);
    // seed corpus: pseudo-random byte strings of several lengths (libFuzzer ramps length slowly from empty)
    let mut x = ctx.shard_seed(77) | 1;
    for i in 0..48 {
        let len = 40 + (i * 37) % 1200;
        let bytes: Vec<u8> = (0..len)
            .map(|_| {
                x ^= x << 13;
                x ^= x >> 7;
                x ^= x << 17;
                (x >> 24) as u8
            })
            .collect();
        let _ = std::fs::write(corpus.join(format!("seed-{}", i)), bytes);
    }
    let runs: u64 = std::env::var("VERIF_FUZZ_RUNS").ok().and_then(|s| s.parse().ok()).unwrap_or(ctx.tier.pick(20_000, if target == "hist_target" { 120_000 } else { 200_000 }));
    let stats_file = dir.join("stats.json");
    let replay_file = dir.join("violation.json");
    let out = Command::new(&bin)
        .arg(&corpus)
        .arg(format!("-runs={}", runs))
        .arg(format!("-seed={}", (ctx.shard_seed(78) % 0x7fff_ffff) + 1))
        .arg("-len_control=0")
        .arg(if target == "hist_target" { "-max_len=900" } else { "-max_len=1500" })
        .arg("-print_final_stats=1")
        // leak detection is not part of any property's claim and reports thread-teardown noise
        .arg("-detect_leaks=0")
        .arg(format!("-artifact_prefix={}/", dir.display()))
        .env("VERIF_FUZZ_PROPS", props)
        .env("VERIF_FUZZ_STATS", &stats_file)
        .env("VERIF_FUZZ_REPLAY", &replay_file)
        .env("VERIF_FUZZ_RUNS", runs.to_string())
        .stdin(Stdio::null())
        .output();
    let out = match out {
        Ok(o) => o,
        Err(e) => {
            return ShardResult { stats, failure: Some(Failure { violation: Violation::new("INFRA", "fuzz-spawn", e.to_string()), case: Value::Null }) };
        }
    };
    if let Some(v) = std::fs::read(&stats_file).ok().and_then(|b| serde_json::from_slice::<Value>(&b).ok()) {
        stats.evaluations = v["evaluations"].as_u64().unwrap_or(0);
        if let Some(hs) = v["hashes"].as_array() {
            stats.nontrivial = hs.iter().filter_map(|h| h.as_u64()).collect();
        }
        stats.label_n("nontrivial_cases_counted_by_target", v["distinct_nontrivial"].as_u64().unwrap_or(0));
    }
    let err = String::from_utf8_lossy(&out.stderr).to_string();
    for l in err.lines() {
        if let Some(n) = l.strip_prefix("stat::number_of_executed_units:") {
            stats.label_n("libfuzzer_executed_units", n.trim().parse().unwrap_or(0));
        }
        if let Some(n) = l.strip_prefix("stat::new_units_added:") {
            stats.label_n("libfuzzer_new_units", n.trim().parse().unwrap_or(0));
        }
    }
    stats.label("libfuzzer_campaign");
    if out.status.success() {
        return ShardResult { stats, failure: None };
    }
    // a violation written by the target, or a crash / sanitizer report
    if let Some(v) = std::fs::read(&replay_file).ok().and_then(|b| serde_json::from_slice::<Value>(&b).ok()) {
        let viol = Violation::new(v["property"].as_str().unwrap_or(ctx.prop), v["signature"].as_str().unwrap_or("fuzz"), format!("[libFuzzer] {}", v["message"].as_str().unwrap_or("")));
        return ShardResult { stats, failure: Some(Failure { violation: viol, case: v["case"].clone() }) };
    }
    let tail: String = err.lines().rev().take(12).collect::<Vec<_>>().into_iter().rev().collect::<Vec<_>>().join(" | ");
    let asan = err.contains("AddressSanitizer") || err.contains("SEGV") || err.contains("deadly signal");
    let viol = if asan {
        Violation::new(ctx.prop, "fuzz-crash", format!("[libFuzzer] the target crashed (sanitizer / signal): {}", tail))
    } else {
        Violation::new("INFRA", "fuzz-exit", format!("fuzz target exited with {}: {}", out.status, tail))
    };
    // keep the crashing input next to the replay
    let artifact = std::fs::read_dir(&dir).ok().and_then(|rd| rd.filter_map(|e| e.ok()).map(|e| e.path()).find(|p| p.file_name().map(|n| n.to_string_lossy().starts_with("crash-")).unwrap_or(false)));
    let case = artifact.and_then(|p| std::fs::read(p).ok()).map(|b| json!({"libfuzzer_input_bytes": b})).unwrap_or(Value::Null);
    ShardResult { stats, failure: Some(Failure { violation: viol, case }) }
}
