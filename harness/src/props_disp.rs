//! C11: parallel dispatch never overlaps a writer; storage handles borrow
//! exactly what they declare.

use std::{
    panic::{catch_unwind, AssertUnwindSafe},
    sync::{
        atomic::{AtomicI32, AtomicU64, Ordering},
        Arc, Mutex,
    },
    time::{Duration, Instant},
};

use proptest::prelude::*;
use serde::{Deserialize, Serialize};
use serde_json::Value;
use specs::{
    prelude::*,
    shred::{Accessor, AccessorCow, DynamicSystemData, MetaTable, ResourceId},
    storage::{AnyStorage, BTreeStorage, HashMapStorage, MaskedStorage},
    world::EntitiesRes,
};

use crate::{
    engine::{parse_case, run_list, run_proptest, Property, ShardCtx, ShardResult, Stats, SubCheck, Tier, Verdict, Violation},
    ensure,
};

macro_rules! comp {
    ($n:ident, $s:ty) => {
        #[derive(Default, Clone, Debug)]
        pub struct $n(pub u32);
        impl Component for $n {
            type Storage = $s;
        }
    };
}
comp!(K0, VecStorage<Self>);
comp!(K1, NoDefaultStorage<Self>);

/// A storage type without `Default` (it has to be registered through `register_with_storage`): the
/// set-up of systems that use it must be content with the storage that is already there.
pub struct NoDefaultStorage<T> {
    inner: DenseVecStorage<T>,
}

impl<T> NoDefaultStorage<T> {
    pub fn new() -> Self {
        NoDefaultStorage { inner: DenseVecStorage::default() }
    }
}

impl<T> specs::storage::TryDefault for NoDefaultStorage<T> {
    fn try_default() -> Result<Self, String> {
        Err("NoDefaultStorage has no default, use register_with_storage".to_owned())
    }
}

impl<T> specs::storage::UnprotectedStorage<T> for NoDefaultStorage<T> {
    type AccessMut<'a> = &'a mut T where T: 'a;

    unsafe fn clean<B>(&mut self, has: B)
    where
        B: specs::hibitset::BitSetLike,
    {
        // SAFETY: requirements passed on to the caller.
        unsafe { self.inner.clean(has) }
    }
    unsafe fn get(&self, id: specs::world::Index) -> &T {
        // SAFETY: requirements passed on to the caller.
        unsafe { self.inner.get(id) }
    }
    unsafe fn get_mut(&mut self, id: specs::world::Index) -> &mut T {
        // SAFETY: requirements passed on to the caller.
        unsafe { self.inner.get_mut(id) }
    }
    unsafe fn insert(&mut self, id: specs::world::Index, value: T) {
        // SAFETY: requirements passed on to the caller.
        unsafe { self.inner.insert(id, value) }
    }
    unsafe fn remove(&mut self, id: specs::world::Index) -> T {
        // SAFETY: requirements passed on to the caller.
        unsafe { self.inner.remove(id) }
    }
}

impl<T> specs::storage::SharedGetMutStorage<T> for NoDefaultStorage<T> {
    unsafe fn shared_get_mut(&self, id: specs::world::Index) -> &mut T {
        // SAFETY: requirements passed on to the caller.
        unsafe { self.inner.shared_get_mut(id) }
    }
}
comp!(K2, HashMapStorage<Self>);
comp!(K3, BTreeStorage<Self>);
comp!(K4, DefaultVecStorage<Self>);
comp!(K5, FlaggedStorage<Self, DenseVecStorage<Self>>);
/// zero-sized marker component
#[derive(Default, Clone, Debug)]
pub struct K6;
impl Component for K6 {
    type Storage = NullStorage<Self>;
}
const NK: usize = 7;

macro_rules! with_k {
    ($k:expr, $f:ident ( $($a:expr),* )) => {
        match $k % NK {
            0 => $f::<K0>($($a),*),
            1 => $f::<K1>($($a),*),
            2 => $f::<K2>($($a),*),
            3 => $f::<K3>($($a),*),
            4 => $f::<K4>($($a),*),
            5 => $f::<K5>($($a),*),
            _ => $f::<K6>($($a),*),
        }
    };
}

fn vio(sig: &str, msg: String) -> Violation {
    Violation::new("C11", sig, msg)
}

// ---------------------------------------------------------------------------
// (ii) borrow probe

#[derive(Clone, Copy, Debug, PartialEq, Eq)]
enum Borrow {
    Free,
    Shared,
    Exclusive,
}

fn probe<R: specs::shred::Resource>(world: &World) -> Borrow {
    let shared_ok = catch_unwind(AssertUnwindSafe(|| {
        let _f = world.fetch::<R>();
    }))
    .is_ok();
    if !shared_ok {
        crate::engine::take_last_panic();
        return Borrow::Exclusive;
    }
    let excl_ok = catch_unwind(AssertUnwindSafe(|| {
        let _f = world.fetch_mut::<R>();
    }))
    .is_ok();
    if excl_ok {
        Borrow::Free
    } else {
        crate::engine::take_last_panic();
        Borrow::Shared
    }
}

fn all_resources(world: &World) -> Vec<(ResourceId, &'static str, Borrow)> {
    vec![
        (ResourceId::new::<EntitiesRes>(), "EntitiesRes", probe::<EntitiesRes>(world)),
        (ResourceId::new::<LazyUpdate>(), "LazyUpdate", probe::<LazyUpdate>(world)),
        (ResourceId::new::<MetaTable<dyn AnyStorage>>(), "MetaTable", probe::<MetaTable<dyn AnyStorage>>(world)),
        (ResourceId::new::<MaskedStorage<K0>>(), "MaskedStorage<K0>", probe::<MaskedStorage<K0>>(world)),
        (ResourceId::new::<MaskedStorage<K1>>(), "MaskedStorage<K1>", probe::<MaskedStorage<K1>>(world)),
        (ResourceId::new::<MaskedStorage<K2>>(), "MaskedStorage<K2>", probe::<MaskedStorage<K2>>(world)),
        (ResourceId::new::<MaskedStorage<K3>>(), "MaskedStorage<K3>", probe::<MaskedStorage<K3>>(world)),
        (ResourceId::new::<MaskedStorage<K4>>(), "MaskedStorage<K4>", probe::<MaskedStorage<K4>>(world)),
        (ResourceId::new::<MaskedStorage<K5>>(), "MaskedStorage<K5>", probe::<MaskedStorage<K5>>(world)),
        (ResourceId::new::<MaskedStorage<K6>>(), "MaskedStorage<K6>", probe::<MaskedStorage<K6>>(world)),
    ]
}

fn new_world() -> World {
    let mut w = World::new();
    w.register::<K0>();
    w.register_with_storage::<_, K1>(NoDefaultStorage::new);
    w.register::<K2>();
    w.register::<K3>();
    w.register::<K4>();
    w.register::<K5>();
    w.register::<K6>();
    for i in 0..40u32 {
        let mut b = w.create_entity();
        if i % 2 == 0 {
            b = b.with(K0(i));
        }
        if i % 3 == 0 {
            b = b.with(K1(i));
        }
        if i % 5 == 0 {
            b = b.with(K2(i)).with(K3(i));
        }
        if i % 7 == 0 {
            b = b.with(K4(i)).with(K5(i));
        }
        if i % 4 == 0 {
            b = b.with(K6);
        }
        b.build();
    }
    w
}

fn probe_data<'a, D: SystemData<'a>>(world: &'a World, name: &str) -> Verdict {
    let reads = D::reads();
    let writes = D::writes();
    let data = D::fetch(world);
    let state = all_resources(world);
    drop(data);
    for (id, rname, b) in state {
        let want = if writes.contains(&id) {
            Borrow::Exclusive
        } else if reads.contains(&id) {
            Borrow::Shared
        } else {
            Borrow::Free
        };
        ensure!("C11", "declaration-mismatch", b == want,
            "{}: after fetch() the resource {} is borrowed {:?} but reads()/writes() declare {:?}", name, rname, b, want);
    }
    // (iii) fetching must work while every resource it does not declare is borrowed exclusively,
    // and while every resource it only reads is borrowed shared
    macro_rules! hold {
        ($r:ty, $rname:expr) => {{
            let id = ResourceId::new::<$r>();
            if !reads.contains(&id) && !writes.contains(&id) {
                let guard = world.fetch_mut::<$r>();
                let ok = catch_unwind(AssertUnwindSafe(|| {
                    let _d = D::fetch(world);
                }))
                .is_ok();
                drop(guard);
                if !ok {
                    crate::engine::take_last_panic();
                }
                ensure!("C11", "undeclared-borrow", ok, "{}: fetch() panics while the undeclared resource {} is borrowed exclusively elsewhere: it touches something it does not declare", name, $rname);
            } else if reads.contains(&id) {
                let guard = world.fetch::<$r>();
                let ok = catch_unwind(AssertUnwindSafe(|| {
                    let _d = D::fetch(world);
                }))
                .is_ok();
                drop(guard);
                if !ok {
                    crate::engine::take_last_panic();
                }
                ensure!("C11", "read-declared-but-exclusive", ok, "{}: fetch() panics while {} (declared as read) is borrowed shared elsewhere", name, $rname);
            }
        }};
    }
    hold!(EntitiesRes, "EntitiesRes");
    hold!(LazyUpdate, "LazyUpdate");
    hold!(MetaTable<dyn AnyStorage>, "MetaTable");
    hold!(MaskedStorage<K0>, "MaskedStorage<K0>");
    hold!(MaskedStorage<K1>, "MaskedStorage<K1>");
    hold!(MaskedStorage<K2>, "MaskedStorage<K2>");
    hold!(MaskedStorage<K3>, "MaskedStorage<K3>");
    hold!(MaskedStorage<K4>, "MaskedStorage<K4>");
    hold!(MaskedStorage<K5>, "MaskedStorage<K5>");
    hold!(MaskedStorage<K6>, "MaskedStorage<K6>");
    let after = all_resources(world);
    for (_, rname, b) in after {
        ensure!("C11", "borrow-leaked", b == Borrow::Free, "{}: resource {} still borrowed {:?} after the data was dropped", name, rname, b);
    }
    Ok(())
}

#[derive(Clone, Debug, Serialize, Deserialize, Hash, PartialEq, Eq)]
pub struct ProbeCase(pub String);

/// A system may clone its `ReadStorage` handle (e.g. to hand a copy to a helper): the clone is a
/// handle like any other, so while either copy lives the storage stays borrowed shared, exactly
/// as declared, and everything is free once both are gone - whichever is dropped first.
fn probe_clone<C: specs::Component>(world: &World, name: &str) -> Verdict {
    let sid = ResourceId::new::<MaskedStorage<C>>();
    let eid = ResourceId::new::<EntitiesRes>();
    for clone_first in [true, false] {
        let original = <ReadStorage<C> as SystemData>::fetch(world);
        let copy = original.clone();
        let both = all_resources(world);
        let (first, second) = if clone_first { (copy, original) } else { (original, copy) };
        drop(first);
        let one = all_resources(world);
        for (stage, state) in [("both the handle and its clone are", both), ("one of the handle and its clone is", one)] {
            for (id, rname, b) in state {
                let want = if id == sid || id == eid { Borrow::Shared } else { Borrow::Free };
                if b != want {
                    // the borrow bookkeeping is off: do not run the remaining guard's destructor
                    std::mem::forget(second);
                    return Err(Violation::new("C11", "declaration-mismatch", format!(
                        "{} cloned (clone dropped first: {}): while {} alive the resource {} is borrowed {:?} but reads()/writes() declare {:?}",
                        name, clone_first, stage, rname, b, want)));
                }
            }
        }
        drop(second);
        for (_, rname, b) in all_resources(world) {
            ensure!("C11", "borrow-leaked", b == Borrow::Free, "{} cloned: resource {} still borrowed {:?} after the handle and its clone were dropped", name, rname, b);
        }
    }
    Ok(())
}

fn probe_named(name: &str) -> Verdict {
    let w = new_world();
    macro_rules! c {
        ($($k:ident),*) => {{
            $( if name == concat!("ReadStorage<", stringify!($k), ">") { probe_clone::<$k>(&w, name)?; } )*
        }};
    }
    c!(K0, K1, K2, K3, K4, K5, K6);
    macro_rules! p {
        ($($t:ty),*) => {{
            $( if name == stringify!($t) { return probe_data::<$t>(&w, name); } )*
        }};
    }
    p!(
        ReadStorage<K0>, ReadStorage<K1>, ReadStorage<K2>, ReadStorage<K3>, ReadStorage<K4>, ReadStorage<K5>, ReadStorage<K6>,
        WriteStorage<K0>, WriteStorage<K1>, WriteStorage<K2>, WriteStorage<K3>, WriteStorage<K4>, WriteStorage<K5>, WriteStorage<K6>,
        Entities, Read<LazyUpdate>,
        (ReadStorage<K6>, WriteStorage<K0>, Entities),
        (ReadStorage<K0>, WriteStorage<K1>),
        (Entities, ReadStorage<K2>, ReadStorage<K3>, WriteStorage<K4>),
        (WriteStorage<K0>, WriteStorage<K5>, Read<LazyUpdate>, Entities),
        (ReadStorage<K0>, ReadStorage<K1>, ReadStorage<K2>, ReadStorage<K3>, ReadStorage<K4>, ReadStorage<K5>),
        (WriteStorage<K0>, WriteStorage<K1>, WriteStorage<K2>, WriteStorage<K3>, WriteStorage<K4>, WriteStorage<K5>, Entities)
    );
    Err(Violation::new("INFRA", "unknown-probe", format!("unknown system data {}", name)))
}

const PROBE_NAMES: &[&str] = &[
    "ReadStorage<K0>", "ReadStorage<K1>", "ReadStorage<K2>", "ReadStorage<K3>", "ReadStorage<K4>", "ReadStorage<K5>", "ReadStorage<K6>",
    "WriteStorage<K0>", "WriteStorage<K1>", "WriteStorage<K2>", "WriteStorage<K3>", "WriteStorage<K4>", "WriteStorage<K5>", "WriteStorage<K6>",
    "Entities", "Read<LazyUpdate>",
    "(ReadStorage<K6>, WriteStorage<K0>, Entities)",
    "(ReadStorage<K0>, WriteStorage<K1>)",
    "(Entities, ReadStorage<K2>, ReadStorage<K3>, WriteStorage<K4>)",
    "(WriteStorage<K0>, WriteStorage<K5>, Read<LazyUpdate>, Entities)",
    "(ReadStorage<K0>, ReadStorage<K1>, ReadStorage<K2>, ReadStorage<K3>, ReadStorage<K4>, ReadStorage<K5>)",
    "(WriteStorage<K0>, WriteStorage<K1>, WriteStorage<K2>, WriteStorage<K3>, WriteStorage<K4>, WriteStorage<K5>, Entities)",
];

fn c11_probe(ctx: &ShardCtx) -> ShardResult {
    let mut r = run_list(ctx, PROBE_NAMES.iter().map(|n| ProbeCase(n.to_string())), |c, stats| {
        probe_named(&c.0)?;
        stats.case(c, true);
        Ok(())
    });
    r.stats.exhaustive = Some(true);
    r
}

fn c11_probe_replay(v: &Value) -> Verdict {
    let c: ProbeCase = parse_case("probe", v)?;
    probe_named(&c.0)
}

// ---------------------------------------------------------------------------
// (iv) the same declaration / borrow comparison over a large family of component types: a defect that
// depends on the identity (type id / hash) of the component type is invisible with seven types

pub struct CG<const N: usize>(pub u32);
impl<const N: usize> specs::Component for CG<N> {
    type Storage = specs::VecStorage<Self>;
}

const MANY: usize = 512;

fn many_one<const N: usize>(world: &mut World, only: Option<usize>) -> Verdict {
    if only.map(|o| o != N).unwrap_or(false) {
        return Ok(());
    }
    world.register::<CG<N>>();
    let world = &*world;
    let sid = ResourceId::new::<MaskedStorage<CG<N>>>();
    let eid = ResourceId::new::<EntitiesRes>();
    for write in [false, true] {
        let (reads, writes, bs, be) = if write {
            let d = <WriteStorage<CG<N>> as SystemData>::fetch(world);
            let r = (probe::<MaskedStorage<CG<N>>>(world), probe::<EntitiesRes>(world));
            drop(d);
            (<WriteStorage<CG<N>> as SystemData>::reads(), <WriteStorage<CG<N>> as SystemData>::writes(), r.0, r.1)
        } else {
            let d = <ReadStorage<CG<N>> as SystemData>::fetch(world);
            let r = (probe::<MaskedStorage<CG<N>>>(world), probe::<EntitiesRes>(world));
            drop(d);
            (<ReadStorage<CG<N>> as SystemData>::reads(), <ReadStorage<CG<N>> as SystemData>::writes(), r.0, r.1)
        };
        let want = |id: &ResourceId| {
            if writes.contains(id) {
                Borrow::Exclusive
            } else if reads.contains(id) {
                Borrow::Shared
            } else {
                Borrow::Free
            }
        };
        let name = if write { "WriteStorage" } else { "ReadStorage" };
        ensure!("C11", "declaration-mismatch", bs == want(&sid),
            "{}<CG<{}>>: after fetch() the component's storage is borrowed {:?} but reads()/writes() declare {:?}", name, N, bs, want(&sid));
        ensure!("C11", "declaration-mismatch", be == want(&eid),
            "{}<CG<{}>>: after fetch() EntitiesRes is borrowed {:?} but reads()/writes() declare {:?}", name, N, be, want(&eid));
        ensure!("C11", "borrow-leaked", probe::<MaskedStorage<CG<N>>>(world) == Borrow::Free, "{}<CG<{}>>: storage still borrowed after the drop", name, N);
    }
    Ok(())
}

macro_rules! many16 {
    ($w:expr, $only:expr, $base:expr) => {{
        many_one::<{ $base }>($w, $only)?;
        many_one::<{ $base + 1 }>($w, $only)?;
        many_one::<{ $base + 2 }>($w, $only)?;
        many_one::<{ $base + 3 }>($w, $only)?;
        many_one::<{ $base + 4 }>($w, $only)?;
        many_one::<{ $base + 5 }>($w, $only)?;
        many_one::<{ $base + 6 }>($w, $only)?;
        many_one::<{ $base + 7 }>($w, $only)?;
        many_one::<{ $base + 8 }>($w, $only)?;
        many_one::<{ $base + 9 }>($w, $only)?;
        many_one::<{ $base + 10 }>($w, $only)?;
        many_one::<{ $base + 11 }>($w, $only)?;
        many_one::<{ $base + 12 }>($w, $only)?;
        many_one::<{ $base + 13 }>($w, $only)?;
        many_one::<{ $base + 14 }>($w, $only)?;
        many_one::<{ $base + 15 }>($w, $only)?;
    }};
}

macro_rules! many128 {
    ($w:expr, $only:expr, $base:expr) => {{
        many16!($w, $only, $base);
        many16!($w, $only, $base + 16);
        many16!($w, $only, $base + 32);
        many16!($w, $only, $base + 48);
        many16!($w, $only, $base + 64);
        many16!($w, $only, $base + 80);
        many16!($w, $only, $base + 96);
        many16!($w, $only, $base + 112);
    }};
}

/// Probes all `MANY` types (or just one when replaying).
fn many_types(only: Option<usize>) -> Verdict {
    let mut world = World::new();
    let w = &mut world;
    many128!(w, only, 0);
    many128!(w, only, 128);
    many128!(w, only, 256);
    many128!(w, only, 384);
    Ok(())
}

fn c11_many(ctx: &ShardCtx) -> ShardResult {
    let mut r = run_list(ctx, (0..MANY).map(|n| ProbeCase(format!("CG<{}>", n))), |c, stats| {
        let n: usize = c.0.trim_start_matches("CG<").trim_end_matches('>').parse().unwrap_or(0);
        many_types(Some(n))?;
        stats.case(c, true);
        Ok(())
    });
    r.stats.exhaustive = Some(true);
    r
}

fn c11_many_replay(v: &Value) -> Verdict {
    let c: ProbeCase = parse_case("probe", v)?;
    let n: usize = c.0.trim_start_matches("CG<").trim_end_matches('>').parse().unwrap_or(0);
    many_types(Some(n))
}

// ---------------------------------------------------------------------------
// (i) monitored dispatch of generated system graphs

/// 0 = none, 1 = read, 2 = write
#[derive(Clone, Debug, Serialize, Deserialize, Hash, PartialEq, Eq)]
pub struct SysSpec {
    pub access: [u8; NK],
    pub entities: bool,
    pub lazy: bool,
    pub deps: Vec<u8>,
    pub barrier_before: bool,
    pub hold_us: u16,
}

#[derive(Clone, Debug, Serialize, Deserialize, Hash, PartialEq, Eq)]
pub struct GraphCase {
    pub systems: Vec<SysSpec>,
    pub pool: u8,
    pub dispatches: u8,
}

struct Monitor {
    readers: [AtomicI32; NK],
    writers: [AtomicI32; NK],
    clock: AtomicU64,
    errors: Mutex<Vec<String>>,
    /// per system: (runs, last start stamp, last end stamp)
    runs: Mutex<Vec<(u32, u64, u64)>>,
    overlapping_readers_seen: AtomicI32,
}

pub struct DynAccessor {
    reads: Vec<ResourceId>,
    writes: Vec<ResourceId>,
    spec: SysSpec,
}

impl Accessor for DynAccessor {
    fn try_new() -> Option<Self> {
        None
    }
    fn reads(&self) -> Vec<ResourceId> {
        self.reads.clone()
    }
    fn writes(&self) -> Vec<ResourceId> {
        self.writes.clone()
    }
}

fn decl_read<C: Component>() -> (Vec<ResourceId>, Vec<ResourceId>) {
    (<ReadStorage<C> as SystemData>::reads(), <ReadStorage<C> as SystemData>::writes())
}
fn decl_write<C: Component>() -> (Vec<ResourceId>, Vec<ResourceId>) {
    (<WriteStorage<C> as SystemData>::reads(), <WriteStorage<C> as SystemData>::writes())
}

impl DynAccessor {
    fn new(spec: &SysSpec) -> DynAccessor {
        let mut reads = vec![];
        let mut writes = vec![];
        let mut add = |(r, w): (Vec<ResourceId>, Vec<ResourceId>)| {
            reads.extend(r);
            writes.extend(w);
        };
        for k in 0..NK {
            match spec.access[k] % 3 {
                1 => add(with_k!(k, decl_read())),
                2 => add(with_k!(k, decl_write())),
                _ => {}
            }
        }
        if spec.entities {
            add((<Entities as SystemData>::reads(), <Entities as SystemData>::writes()));
        }
        if spec.lazy {
            add((<Read<LazyUpdate> as SystemData>::reads(), <Read<LazyUpdate> as SystemData>::writes()));
        }
        // shred requires reads and writes to be disjoint and duplicate-free
        writes.sort();
        writes.dedup();
        reads.sort();
        reads.dedup();
        reads.retain(|r| !writes.contains(r));
        DynAccessor { reads, writes, spec: spec.clone() }
    }
}

#[allow(dead_code)]
enum Held<'a> {
    R0(ReadStorage<'a, K0>),
    R1(ReadStorage<'a, K1>),
    R2(ReadStorage<'a, K2>),
    R3(ReadStorage<'a, K3>),
    R4(ReadStorage<'a, K4>),
    R5(ReadStorage<'a, K5>),
    R6(ReadStorage<'a, K6>),
    W6(WriteStorage<'a, K6>),
    W0(WriteStorage<'a, K0>),
    W1(WriteStorage<'a, K1>),
    W2(WriteStorage<'a, K2>),
    W3(WriteStorage<'a, K3>),
    W4(WriteStorage<'a, K4>),
    W5(WriteStorage<'a, K5>),
    E(Entities<'a>),
    L(Read<'a, LazyUpdate>),
}

pub struct DynData<'a> {
    held: Vec<Held<'a>>,
}

impl<'a> DynamicSystemData<'a> for DynData<'a> {
    type Accessor = DynAccessor;

    fn setup(_: &DynAccessor, _: &mut World) {}

    fn fetch(acc: &DynAccessor, world: &'a World) -> Self {
        let mut held = vec![];
        for k in 0..NK {
            match (acc.spec.access[k] % 3, k) {
                (1, 0) => held.push(Held::R0(SystemData::fetch(world))),
                (1, 1) => held.push(Held::R1(SystemData::fetch(world))),
                (1, 2) => held.push(Held::R2(SystemData::fetch(world))),
                (1, 3) => held.push(Held::R3(SystemData::fetch(world))),
                (1, 4) => held.push(Held::R4(SystemData::fetch(world))),
                (1, 5) => held.push(Held::R5(SystemData::fetch(world))),
                (1, _) => held.push(Held::R6(SystemData::fetch(world))),
                (2, 0) => held.push(Held::W0(SystemData::fetch(world))),
                (2, 1) => held.push(Held::W1(SystemData::fetch(world))),
                (2, 2) => held.push(Held::W2(SystemData::fetch(world))),
                (2, 3) => held.push(Held::W3(SystemData::fetch(world))),
                (2, 4) => held.push(Held::W4(SystemData::fetch(world))),
                (2, 5) => held.push(Held::W5(SystemData::fetch(world))),
                (2, _) => held.push(Held::W6(SystemData::fetch(world))),
                _ => {}
            }
        }
        if acc.spec.entities {
            held.push(Held::E(SystemData::fetch(world)));
        }
        if acc.spec.lazy {
            held.push(Held::L(SystemData::fetch(world)));
        }
        DynData { held }
    }
}

struct DynSys {
    id: usize,
    acc: DynAccessor,
    mon: Arc<Monitor>,
}

impl<'a> System<'a> for DynSys {
    type SystemData = DynData<'a>;

    fn run(&mut self, mut data: DynData<'a>) {
        let mon = &self.mon;
        let start = mon.clock.fetch_add(1, Ordering::SeqCst);
        let spec = &self.acc.spec;
        for k in 0..NK {
            match spec.access[k] % 3 {
                2 => {
                    let w = mon.writers[k].fetch_add(1, Ordering::SeqCst);
                    let r = mon.readers[k].load(Ordering::SeqCst);
                    if w != 0 || r != 0 {
                        mon.errors.lock().unwrap().push(format!("system #{} writes storage K{} while {} other writer(s) and {} reader(s) hold it", self.id, k, w, r));
                    }
                }
                1 => {
                    let r = mon.readers[k].fetch_add(1, Ordering::SeqCst);
                    let w = mon.writers[k].load(Ordering::SeqCst);
                    if w != 0 {
                        mon.errors.lock().unwrap().push(format!("system #{} reads storage K{} while {} writer(s) hold it", self.id, k, w));
                    }
                    if r > 0 {
                        mon.overlapping_readers_seen.fetch_add(1, Ordering::Relaxed);
                    }
                }
                _ => {}
            }
        }
        // really touch the data: writers bump every component, readers sum them
        let mut sum = 0u64;
        for h in data.held.iter_mut() {
            match h {
                Held::W0(s) => {
                    for c in (s).join() {
                        c.0 = c.0.wrapping_add(1);
                    }
                }
                Held::W1(s) => {
                    for c in (s).join() {
                        c.0 = c.0.wrapping_add(1);
                    }
                }
                Held::W2(s) => {
                    for c in (s).join() {
                        c.0 = c.0.wrapping_add(1);
                    }
                }
                Held::W3(s) => {
                    for c in (s).join() {
                        c.0 = c.0.wrapping_add(1);
                    }
                }
                Held::W4(s) => {
                    for c in (s).join() {
                        c.0 = c.0.wrapping_add(1);
                    }
                }
                Held::W5(s) => {
                    for c in (s).join() {
                        c.0 = c.0.wrapping_add(1);
                    }
                }
                Held::W6(s) => {
                    for _c in (s).join() {
                        sum += 1;
                    }
                }
                Held::R6(s) => sum += (&*s).join().count() as u64,
                Held::R0(s) => sum += (&*s).join().map(|c| c.0 as u64).sum::<u64>(),
                Held::R1(s) => sum += (&*s).join().map(|c| c.0 as u64).sum::<u64>(),
                Held::R2(s) => sum += (&*s).join().map(|c| c.0 as u64).sum::<u64>(),
                Held::R3(s) => sum += (&*s).join().map(|c| c.0 as u64).sum::<u64>(),
                Held::R4(s) => sum += (&*s).join().map(|c| c.0 as u64).sum::<u64>(),
                Held::R5(s) => sum += (&*s).join().map(|c| c.0 as u64).sum::<u64>(),
                Held::E(e) => sum += (&**e).join().count() as u64,
                Held::L(l) => l.exec(|_| {}),
            }
        }
        std::hint::black_box(sum);
        let until = Instant::now() + Duration::from_micros(20 + (spec.hold_us % 280) as u64);
        while Instant::now() < until {
            std::hint::spin_loop();
        }
        for k in 0..NK {
            match spec.access[k] % 3 {
                2 => {
                    mon.writers[k].fetch_sub(1, Ordering::SeqCst);
                }
                1 => {
                    mon.readers[k].fetch_sub(1, Ordering::SeqCst);
                }
                _ => {}
            }
        }
        let end = mon.clock.fetch_add(1, Ordering::SeqCst);
        let mut runs = mon.runs.lock().unwrap();
        runs[self.id].0 += 1;
        runs[self.id].1 = start;
        runs[self.id].2 = end;
    }

    fn accessor<'b>(&'b self) -> AccessorCow<'a, 'b, Self> {
        AccessorCow::Ref(&self.acc)
    }

    fn setup(&mut self, world: &mut World) {
        // specs' own set-up of every handle this system uses (what Dispatcher::setup runs for ordinary systems)
        fn setup_read<C: Component>(world: &mut World) {
            <ReadStorage<C> as SystemData>::setup(world)
        }
        fn setup_write<C: Component>(world: &mut World) {
            <WriteStorage<C> as SystemData>::setup(world)
        }
        for k in 0..NK {
            match self.acc.spec.access[k] % 3 {
                1 => with_k!(k, setup_read(world)),
                2 => with_k!(k, setup_write(world)),
                _ => {}
            }
        }
        if self.acc.spec.entities {
            <Entities as SystemData>::setup(world);
        }
        if self.acc.spec.lazy {
            <Read<LazyUpdate> as SystemData>::setup(world);
        }
    }
}

const POOLS: [usize; 4] = [1, 2, 4, 16];

thread_local! {
    static POOL_CACHE: std::cell::RefCell<std::collections::BTreeMap<usize, Arc<specs::rayon::ThreadPool>>> = std::cell::RefCell::new(Default::default());
}

fn pool(n: usize) -> Arc<specs::rayon::ThreadPool> {
    POOL_CACHE.with(|c| {
        c.borrow_mut()
            .entry(n)
            .or_insert_with(|| Arc::new(specs::rayon::ThreadPoolBuilder::new().num_threads(n).build().expect("pool")))
            .clone()
    })
}

struct GraphFacts {
    nontrivial: bool,
    overlapping_readers: bool,
}

fn run_graph(case: &GraphCase) -> Result<GraphFacts, Violation> {
    let n = case.systems.len();
    let mon = Arc::new(Monitor {
        readers: Default::default(),
        writers: Default::default(),
        clock: AtomicU64::new(1),
        errors: Mutex::new(vec![]),
        runs: Mutex::new(vec![(0, 0, 0); n]),
        overlapping_readers_seen: AtomicI32::new(0),
    });
    let mut world = new_world();
    let names: Vec<String> = (0..n).map(|i| format!("s{}", i)).collect();
    let mut deps_of: Vec<Vec<usize>> = vec![];
    let mut builder = DispatcherBuilder::new().with_pool(pool(POOLS[case.pool as usize % POOLS.len()]));
    let mut barrier_index: Vec<usize> = vec![];
    let mut barriers = 0usize;
    for (i, s) in case.systems.iter().enumerate() {
        if s.barrier_before && i > 0 {
            builder.add_barrier();
            barriers += 1;
        }
        barrier_index.push(barriers);
        let mut deps: Vec<usize> = s.deps.iter().filter(|_| i > 0).map(|d| *d as usize % i.max(1)).collect();
        deps.sort();
        deps.dedup();
        let dep_names: Vec<&str> = deps.iter().map(|d| names[*d].as_str()).collect();
        builder.add(DynSys { id: i, acc: DynAccessor::new(s), mon: mon.clone() }, &names[i], &dep_names);
        deps_of.push(deps);
    }
    let mut dispatcher = builder.build();
    dispatcher.setup(&mut world);
    let rounds = (case.dispatches % 3 + 1) as u32;
    for round in 0..rounds {
        let r = catch_unwind(AssertUnwindSafe(|| dispatcher.dispatch(&world)));
        if r.is_err() {
            let msg = crate::engine::take_last_panic().unwrap_or_default();
            return Err(vio("dispatch-panic", format!("dispatch #{} panicked: {}", round, msg)));
        }
        world.maintain();
        if let Some(e) = mon.errors.lock().unwrap().first() {
            return Err(vio("writer-overlap", format!("dispatch #{}: {}", round, e)));
        }
        let runs = mon.runs.lock().unwrap();
        for i in 0..n {
            ensure!("C11", "run-count", runs[i].0 == round + 1, "after dispatch #{} system #{} has run {} times", round, i, runs[i].0);
            for d in &deps_of[i] {
                ensure!("C11", "dependency-order", runs[*d].2 < runs[i].1, "system #{} started (stamp {}) before its dependency #{} finished (stamp {})", i, runs[i].1, d, runs[*d].2);
            }
            for j in 0..i {
                if barrier_index[j] < barrier_index[i] {
                    ensure!("C11", "barrier-order", runs[j].2 < runs[i].1, "system #{} started before #{} finished although a barrier separates them", i, j);
                }
            }
        }
    }
    // non-triviality: two systems conflict on a storage and are not ordered by dependencies / barriers
    let mut reach = vec![vec![false; n]; n];
    for i in 0..n {
        for d in &deps_of[i] {
            reach[i][*d] = true;
        }
        for j in 0..i {
            if barrier_index[j] < barrier_index[i] {
                reach[i][j] = true;
            }
        }
    }
    for k in 0..n {
        for i in 0..n {
            for j in 0..n {
                if reach[i][k] && reach[k][j] {
                    reach[i][j] = true;
                }
            }
        }
    }
    let mut nt = false;
    for i in 0..n {
        for j in 0..i {
            if reach[i][j] || reach[j][i] {
                continue;
            }
            for k in 0..NK {
                let (a, b) = (case.systems[i].access[k] % 3, case.systems[j].access[k] % 3);
                if (a == 2 && b != 0) || (b == 2 && a != 0) {
                    nt = true;
                }
            }
        }
    }
    Ok(GraphFacts { nontrivial: nt, overlapping_readers: mon.overlapping_readers_seen.load(Ordering::Relaxed) > 0 })
}

fn sys_spec() -> impl Strategy<Value = SysSpec> {
    (
        proptest::array::uniform7(prop_oneof![5 => Just(0u8), 3 => Just(1u8), 2 => Just(2u8)]),
        prop::bool::weighted(0.5),
        prop::bool::weighted(0.3),
        proptest::collection::vec(any::<u8>(), 0..3),
        prop::bool::weighted(0.1),
        0u16..280,
    )
        .prop_map(|(access, entities, lazy, deps, barrier_before, hold_us)| SysSpec { access, entities, lazy, deps, barrier_before, hold_us })
}

fn graph_case() -> impl Strategy<Value = GraphCase> {
    (proptest::collection::vec(sys_spec(), 2..10), 0u8..4, 0u8..3).prop_map(|(systems, pool, dispatches)| GraphCase { systems, pool, dispatches })
}

fn c11_graphs(ctx: &ShardCtx) -> ShardResult {
    let cases = ctx.tier.pick(1500, 20_000);
    run_proptest(ctx, graph_case(), cases, 11, |c, stats| {
        let f = run_graph(c)?;
        stats.label(&format!("pool.{}", POOLS[c.pool as usize % POOLS.len()]));
        if f.overlapping_readers {
            stats.label("readers_overlapped_in_time");
        }
        stats.case(c, f.nontrivial);
        Ok(())
    })
}

fn c11_graph_replay(v: &Value) -> Verdict {
    let c: GraphCase = parse_case("graph", v)?;
    // a schedule-dependent failure may need several attempts
    for _ in 0..20 {
        run_graph(&c)?;
    }
    Ok(())
}

pub fn c11() -> Property {
    Property {
        id: "C11",
        subs: vec![
            SubCheck {
                name: "borrow-probe",
                shards: |_| 1,
                run: c11_probe,
                replay: c11_probe_replay,
                rule: "exhaustive over 22 SystemData types (ReadStorage / WriteStorage of seven storage kinds incl. a zero-sized component in NullStorage, Entities, Read<LazyUpdate>, five tuples): fetch the data, then probe every resource of the world with catch_unwind(fetch / fetch_mut); the observed borrow state must be exclusive for exactly writes(), shared for exactly reads(), free otherwise, and free again after the drop; fetch() must also succeed while every undeclared resource is held exclusively elsewhere and every read-declared one is held shared (no transient undeclared borrows); every type is one non-trivial case",
                exe_env: None,
            },
            SubCheck {
                name: "many-types",
                shards: |_| 4,
                run: c11_many,
                replay: c11_many_replay,
                rule: "the borrow-state comparison of ReadStorage<T> / WriteStorage<T> for a family of 512 component types (const-generic CG<0..512>): after fetch() the component's storage and EntitiesRes must be borrowed exactly as reads()/writes() declare, and be free after the drop; catches declarations that depend on the identity (type id, hash) of the component type; every type is one case",
                exe_env: None,
            },
            SubCheck {
                name: "dispatch",
                shards: |t: Tier| t.pick(8, 16),
                run: c11_graphs,
                replay: c11_graph_replay,
                rule: "generated system graphs (2..9 systems, per system none/read/write over seven component storages (one zero-sized) + Entities + Read<LazyUpdate>, dependency edges, barriers, hold time 20-300us) dispatched 1-3 times on pools of {1,2,4,16} threads; each system's accessor is the union of specs' own reads()/writes() declarations and its fetch is specs' own fetch; monitor: per-storage reader/writer counters (a writer never coexists with another accessor), every system ran once per dispatch, dependencies and barriers respected, no panic escapes dispatch; non-trivial = two systems conflicting on a storage with no ordering path between them",
                exe_env: None,
            },
        ],
        crash_is_violation: false,
        assumptions: &["shred's stage planner and rayon's scheduling are dependencies; the run-time schedule is sampled (overlap detection is exact, absence of overlap is per observed schedule)"],
    }
}
