#!/usr/bin/env python3
"""dev helper: seedsave.py <log> : stores confirmed seeds from /tmp/seed/out into /verif/seeded/<ID>-<N>/"""
import sys, json, os, re, shutil
log = open(sys.argv[1]).read()
ROOT = sys.argv[2] if len(sys.argv) > 2 else '/tmp/seed'
SUFFIX = sys.argv[3] if len(sys.argv) > 3 else ''
blocks = re.split(r'^##### ', log, flags=re.M)[1:]
cur_id = None
for b in blocks:
    lines = b.strip().split('\n')
    head = lines[0].strip()
    retest = 'retest' in head
    head = head.split(' ')[0]
    # either "C01-1" or "C07" followed by two groups
    groups = []
    if '-' in head:
        groups.append((head.split('-')[0], int(head.split('-')[1]), lines[1:]))
    else:
        # split on CONFIRM: existing suite
        idxs = [i for i,l in enumerate(lines) if l.startswith('CONFIRM: existing suite')]
        for k,i in enumerate(idxs):
            end = idxs[k+1] if k+1 < len(idxs) else len(lines)
            groups.append((head, k+1, lines[i:end]))
    for pid, n, ls in groups:
        src = f'{ROOT}/out/{pid}'
        if not os.path.exists(f'{src}/patch{n}.diff'): continue
        confirm = [l for l in ls if l.startswith('CONFIRM')]
        ok = (any('114 passed 0 failed' in l for l in confirm) and any('demo fails with change (ok)' in l for l in confirm)
              and any('demo passes without change (ok)' in l for l in confirm))
        detected = sorted(set(re.findall(r'VIOLATION property=(C\d+)', '\n'.join(ls))))
        sigs = sorted(set(re.findall(r'\[([a-z0-9_\-]+)\]', '\n'.join(l for l in ls if ' / ' in l))))
        dst = f'/verif/seeded/{pid}-{SUFFIX}{n}'
        os.makedirs(dst, exist_ok=True)
        shutil.copy(f'{src}/patch{n}.diff', f'{dst}/patch.diff')
        shutil.copy(f'{src}/demo{n}.rs', f'{dst}/demo.rs')
        prev = None
        prev_conf = None
        if retest and os.path.exists(f'{dst}/meta.json'):
            pm = json.load(open(f'{dst}/meta.json'))
            prev = pm.get('first_version_run') or pm.get('checks_run')
            prev_conf = pm.get('confirmed_by_me')
        meta = {}
        try: meta = json.load(open(f'{src}/meta{n}.json'))
        except Exception as e: meta = {'note': 'agent meta unreadable: %s' % e}
        meta['property'] = pid
        meta['confirmed_by_me'] = {
            'procedure': 'seedrun.sh: in the scratch worktree: git apply patch; cargo test --workspace --offline; demo as tests/seed_demo.rs fails with the patch and passes without it',
            'lines': confirm, 'all_confirmed': ok}
        if retest and not confirm and prev_conf:
            # a retest without re-confirmation keeps the confirmation recorded earlier
            meta['confirmed_by_me'] = prev_conf
            ok = prev_conf.get('all_confirmed', False)
        if retest:
            meta['first_version_missed'] = True
            if prev: meta['first_version_run'] = prev
        ran = re.findall(r'\(retest ([^)]*)\)', lines[0])
        checks = ran[0].strip() if ran else pid
        meta['checks_run'] = {'command': f'git -C /repo apply patch.diff; for c in {checks}: ./verif.sh $c quick; git -C /repo checkout -- .',
                              'violations_reported_for': detected, 'signatures': sigs, 'detected': pid in detected, 'detected_by_other_property_check': [d for d in detected if d != pid]}
        json.dump(meta, open(f'{dst}/meta.json','w'), indent=1)
        print(pid, n, 'confirmed' if ok else 'NOT-CONFIRMED', 'detected' if pid in detected else ('MISSED (other: %s)' % detected), sigs[:3], 'RETEST' if retest else '')
