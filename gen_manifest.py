#!/usr/bin/env python3
"""Regenerates /verif/MANIFEST.json from the table below (run after adding a check)."""
import json, subprocess

HOOK_COMMITS = ["2da4c0c"]

CHECKS = {
 "C01": dict(design="4/C01", technique="model-based property testing of operation histories (proptest; short histories over every path + bulk large-world rounds) with a validity oracle on returned handles + allocator self-check hook",
   text="Exploration: tens of thousands of generated create/delete/maintain histories over every creation and deletion path are executed against the real World; each returned handle is validated against the set of all earlier handles and the model's occupancy. Shows absence of violations on everything generated, not absence in general; A second generator (large-worlds) creates and deletes thousands of entities per round so that bookkeeping that depends on table sizes is reached; other histories are short (<=40 quick, <=200 thorough) which is where allocator bugs live (3-8 step interleavings of paths).",
   note="trusts the timeline model in harness/src/hist.rs, hibitset and shred; the allocator self-check hook (cfg specs_verif) is read-only"),
 "C02": dict(design="4/C02", technique="model-based property testing: aliveness timeline model compared after every step of generated histories",
   text="Exploration: after every step of every generated history, is_alive of every handle ever returned, deletion results (incl. failing batch position) and (&entities).join() are compared with a reference timeline model; unfinished builders are dropped normally and by unwinding; bulk large-world rounds (thousands of entities) compare is_alive of every handle and the entity join with the model.",
   note="World::is_alive for not-yet-merged entities and actual_gen in errors are deliberately not asserted"),
 "C03": dict(design="4/C03", technique="model-based property testing of histories that manufacture stale handles, all access paths x all storage kinds",
   text="Exploration: histories biased to produce dead handles with re-occupied indices; every handle-taking access path is driven through them on all 21 storage configurations and the occupant's component is compared before/after; refused accesses must not emit events, lazy actions on dead targets must not touch the index's occupant; lending-join lookups also through masks that do not depend on aliveness (maybe, entries, negation).",
   note="trusts the component map model; values are instrumented so a leaked/modified occupant value is visible"),
 "C05": dict(design="4/C05", technique="model-based property testing: per-storage component maps compared after every step over 3-8 mixed storages, plus bulk large-world rounds with components",
   text="Exploration: full comparison of every storage (mask, count, every handle lookup, dense as_slice view) with the model after every step, storages made known through all registration paths.",
   note="trusts the component map model"),
 "C09": dict(design="4/C09", technique="model-based property testing of lazy-update histories with an execution log oracle",
   text="Exploration: closures write an execution log and their own observations; the log must equal the model's FIFO processing exactly (once, in order, nested later, after merge+purge); closures are queued through exec and exec_mut alternately, chains of up to 139 closures each queued by its predecessor, closures that call maintain themselves.",
   note="closure targets are concrete handles resolved when the action is queued; crossbeam SegQueue trusted"),
 "C17": dict(design="4/C17", technique="history invariant (index < running peak; fresh index only when all lower occupied) over generated histories, bulk rounds and scheduled concurrent creations + allocator leak self-check",
   text="Exploration: every creation in every generated history is checked against the running peak of simultaneously not-yet-dead entities; found and led to the repair of finding F1. Bulk large-world rounds apply the same rule at thousands of indices; under the owned scheduler of C10 the rule is checked for concurrent creations (fresh indices only once the free list is exhausted).",
   note="allocator self-check hook (free list completeness) is used as an early warning: a leaked index always has a continuation that takes a fresh index"),

 "C04": dict(design="4/C04", technique="differential property testing: operation sequences on each storage kind vs a BTreeMap reference model (proptest)",
   text="Exploration: generated operation sequences over the complete Storage API (entry family, drain, slices, joins, entity deletion) on all 21 storage/wrapper configurations (incl. zero-sized components and component types without drop glue) and dense / sparse / layer-straddling index pools are compared with a BTreeMap after every step.",
   note="trusts the BTreeMap model in harness/src/stoseq.rs; a worker crash (SIGSEGV in the unsafe storage code) is confirmed by replay and reported as a violation"),
 "C06": dict(design="4/C06", technique="model-based property testing: catalogue of 47 join shapes x generated membership vs set-intersection model, four execution modes",
   text="Exploration: every shape of a fixed catalogue (arity 1-16, every member kind) is run as join / lend_join next / for_each / get / get_unchecked (ascending, descending, alternating probes) / join().count() / join().skip(k).step_by(s) over generated membership incl. all hierarchical-bitset layer boundaries; sequence, items, optional members, write-through and drain effects compared with a set model.",
   note="shape catalogue is fixed (macro-generated), membership / written subset generated; arities 17-18 cannot be instantiated (no BitAnd impl) so 16 is the maximum"),
 "C07": dict(design="4/C07", technique="differential property testing: par_join vs sequential join on identical worlds, real rayon pools of 1..256 threads plus generated split trees through a hook",
   text="Exploration: 15 ParJoin shapes (incl. nested optional groups) x generated membership, plus joins without a positive member over all 2^24 indices; the multiset of delivered items must equal the sequential join, and every mutable component of the intersection must be written exactly once. The partition of the index space is a generated input (split-tree hook), rayon's run-time stealing is sampled on pools up to 256 threads.",
   note="rayon scheduling sampled; split decisions owned via cfg(specs_verif) hook verif_par_join_split_tree"),
 "C08": dict(design="4/C08", technique="ledger invariant (serial + canary per component value) over generated storage sequences, world histories and change sets",
   text="Exploration: every component value is instrumented; after each step and after dropping the world no value may be destroyed twice, exposed after destruction, destroyed while still attached to a live entity, or leaked. Three generators: single-storage sequences on all kinds, world histories with builders / lazy updates / all deletion paths, change sets.",
   note="the ledger sees only values of the harness's component types; zero-sized components are counted, not individually tracked"),
 "C12": dict(design="4/C12", technique="model-based property testing of the event stream of FlaggedStorage / DerefFlaggedStorage, two feature builds",
   text="Exploration: after every operation of generated sequences the events read by a pre-registered reader must be exactly the model's insertions/removals, with Modified required exactly where mutable access was handed out (Flagged) or dereferenced (DerefFlagged); run against builds with and without storage-event-control.",
   note="Modified multiplicity not asserted; replace on a vacant entry may emit an internal Modified"),
 "C13": dict(design="4/C13", technique="model-based property testing of restricted storages: sequences, histories with get_other probes, sequential / lending / parallel joins",
   text="Exploration: restricted joins with a generated subset fetched mutably on all storage kinds (events exactly for the fetched set on tracked ones), get_other/get_other_mut probes with live / dead / stale handles inside world histories, and restricted members inside sequential and parallel join shapes.",
   note="as C04 / C06 / C07"),
 "C16": dict(design="4/C16", technique="model-based property testing of ChangeSet with a non-commutative instrumented amount type",
   text="Exploration: generated pair sequences (up to 89 pairs, exact-size and lower-bound-0 source iterators, optionally into a set that was used and cleared before) split into collect / extend / add; all join forms compared with a BTreeMap of concatenations, ledger for by-value consumption.",
   note="amount type is Vec<u32> concatenation so arrival order is observable"),
 "C19": dict(design="4/C19", technique="fault injection enumerated over every destructor call of one destroying operation after a generated prefix; ledger + differential continuation",
   text="Fault enumeration inside exploration: for each generated (prefix, destroying op) all destructor calls of that op are made to panic in turn (capped at 24 per op); after catch_unwind no double destruction, no destroyed value readable, and a generated continuation (up to 29 operations biased to refills and removals) + teardown behaves like the re-synchronised model.",
   note="one panic per run; which values survive is not asserted; leaks after a panic only counted"),

 "C10": dict(design="4/C10", technique="schedule exploration: bounded-preemption exhaustive enumeration + generated random schedules under an owned baton scheduler (yield-point hooks), plus real-thread stress",
   text="Exploration of schedules: the interleaving of the lock-free steps of Entities::create/create_iter/delete/is_alive/join and LazyUpdate calls is a generated input. 30 small programs are enumerated exhaustively up to 2 (quick) / 3 (thorough) preemptions; generated programs x generated decision sequences go deeper; real-thread stress with a barrier-started burst on the lazy queue; end-state oracle after maintain, joined handles must be alive and deletable.",
   note="sequentially consistent interleavings at hook granularity only; hibitset add_atomic / crossbeam SegQueue are atomic steps; weak-memory behaviour only sampled by stress on x86"),
 "C11": dict(design="4/C11", technique="property-based testing of generated system graphs under a reader/writer monitor + exhaustive borrow-state probe of SystemData declarations",
   text="Exploration: generated system graphs (access vectors over six storages, dependencies, barriers, pool sizes 1-16) are dispatched with exact per-storage reader/writer counters; deterministic probe compares what fetch() really borrows with reads()/writes() for 22 SystemData types and for ReadStorage/WriteStorage of 512 const-generic component types; systems run specs' own set-up, one storage type has no Default.",
   note="the stage planner is shred's (trusted); run-time schedule sampled; systems use specs' own declarations and fetch"),
 "C14": dict(design="4/C14", technique="round-trip property testing (serialize -> deserialize into a shifted world) with a marker-correspondence oracle and a record-shuffling metamorphic relation",
   text="Exploration: generated worlds with arbitrary reference graphs, two marker implementations, JSON and RON, recursive and non-recursive serialisers; loaded world compared through the marker correspondence; JSON records shuffled; three marker implementations (SimpleMarker, UuidMarker, a user-defined marker with extra data); source worlds with churned markers, pending deletions and unmerged entities on recycled indices.",
   note="serde_json / ron trusted; non-recursive serialiser only given references to marked entities (documented domain)"),
 "C15": dict(design="4/C15", technique="model-based property testing of mark/delete/maintain/save/load histories over two worlds",
   text="Exploration: histories over two worlds with cross loads, repeated loads, stale allocator mappings, deferred markings (LazyBuilder::marked), deferred loads (inside maintain) and explicit ids above the counter; uniqueness of live marker ids and in-place update / create-only-unknown checked after every step.",
   note="explicit ids are fresh; marker components never removed directly (outside the property's alphabet)"),
 "C20": dict(design="4/C20", technique="differential property testing between runs: transcript of a generated history compared across two in-process worlds and a fresh process",
   text="Exploration: full transcripts (handles, results, joins, events, serialised bytes) of generated single-threaded histories and save/load cases must be identical across two runs in one process (the second with an unrelated third world active between the steps of merge histories) and a run in a fresh process with different hash seeds and address layout.",
   note="teardown destructor order and UuidMarker::new_random excluded by design"),

 "C18": dict(design="4/C18", technique="generated-program property testing: a grammar of type definitions is printed as a crate with hand-expanded reference conversions, compiled against the working tree's specs-derive, run, and judged per type",
   text="Exploration over programs: generated struct / enum shapes (named, tuple, nested, generic with inline or where-clause bounds, skip attributes, variant-level forwarded attributes, a field named `ids`, types defined through macro_rules! fragments, up to 13 fields) and Component declarations; each type's derived conversion is compared value by value with an independently generated field-wise reference (JSON equality, permuted round trip through JSON and directly), each derived Component's Storage TypeId with the requested one.",
   note="grammar restricted to shapes the derive supports (at least one converted field per type; no Entity inside tuples/arrays/Option); needs cargo at check time (offline)"),
}

NOT_YET = {}

def main():
    props = [json.loads(l) for l in open('/verif/properties.jsonl')]
    checks = []
    na = []
    for p in props:
        pid = p['id']
        if pid in CHECKS:
            c = CHECKS[pid]
            checks.append({
                "property_id": pid,
                "quick_cmd": f"./verif.sh {pid} quick",
                "thorough_cmd": f"./verif.sh {pid} thorough",
                "evidence_file": f"/verif/evidence/{pid}.json",
                "replay_cmd_template": f"./verif.sh {pid} --replay {{path}}",
                "engine": "specs-verif",
                "level_claimed": {"category": "exploration", "text": c['text'], "design_ref": f"DESIGN.md section {c['design']}"},
                "level_note": c['note'],
                "technique": c['technique'],
            })
        else:
            na.append({"property_id": pid, "reason": NOT_YET.get(pid, "check not built yet (work in progress; DESIGN.md section 4 has the plan) - not claimed until it is")})
    m = {
        "version": 1,
        "setup_cmd": "./setup.sh",
        "hooks": {
            "guard": "--cfg specs_verif",
            "enable": "harness/.cargo/config.toml sets build.rustflags = [\"--cfg\", \"specs_verif\"]; specs is a path dependency on /repo so every check rebuilds it from the working tree",
            "baseline_off_cmd": "cd /repo && cargo test --workspace --no-fail-fast --offline",
            "source_commits": HOOK_COMMITS,
            "add_only": True,
        },
        "engines": [
            {"name": "specs-verif", "path": "/verif/harness", "serves_properties": sorted(CHECKS.keys()),
             "kind_free_text": "Rust binary: proptest-driven generators (fixed seed from VERIF_SEED), reference models and oracles, worker processes per shard, replay files"},
        ],
        "checks": checks,
        "not_applicable": na,
        "notes": "All checks: exit 0 held / 1 violation (VIOLATION line + replay file under /verif/replays) / 2 inconclusive (build failure, timeout, non-reproducing crash). Genuine defects: known_findings.json.",
    }
    json.dump(m, open('/verif/MANIFEST.json', 'w'), indent=1)
    print("claimed", len(checks), "not claimed", len(na))

main()
