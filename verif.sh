#!/bin/bash
# /verif/verif.sh <ID> quick|thorough        run a check (rebuilds against /repo's working tree)
# /verif/verif.sh <ID> --replay <file.json>  re-execute one saved case
# exit 0 = held on everything explored, 1 = violation (VIOLATION line), 2 = inconclusive / infrastructure
set -u
export CARGO_NET_OFFLINE=true
ID="${1:?property id}"
MODE="${2:?quick|thorough|--replay}"
cd /verif/harness || exit 2
build() {
  # specs is a path dependency on /repo: cargo rebuilds it whenever a source file changed
  if ! cargo build --release "$@" >/verif/harness/target/build.log 2>&1; then
    mkdir -p /verif/harness/target
    echo "INCONCLUSIVE: the harness does not build against the current /repo tree (see /verif/harness/target/build.log)"
    grep -E "^error" -A 6 /verif/harness/target/build.log | head -40
    exit 2
  fi
}
mkdir -p /verif/harness/target
build
BIN=/verif/harness/target/release/specs-verif
if [ "$ID" = "C12" ]; then
  # second configuration: storage-event-control off
  if ! cargo build --release --no-default-features --target-dir /verif/harness/target/nosec >/verif/harness/target/build-nosec.log 2>&1; then
    echo "INCONCLUSIVE: the harness (without storage-event-control) does not build (see /verif/harness/target/build-nosec.log)"
    exit 2
  fi
  export VERIF_NOSEC_BIN=/verif/harness/target/nosec/release/specs-verif
fi
if [ "$MODE" = "thorough" ]; then
  case "$ID" in
    C01|C02|C03|C04|C05|C08|C09|C17)
      # secondary engine: libFuzzer targets (instrumented + AddressSanitizer). If they cannot be built the
      # check still runs its proptest parts and says so in the evidence.
      (cd /verif/harness && RUSTFLAGS="--cfg specs_verif" cargo +nightly fuzz build >/verif/harness/target/build-fuzz.log 2>&1) || echo "note: fuzz targets not built (see /verif/harness/target/build-fuzz.log); libFuzzer part skipped"
      ;;
  esac
fi
case "$MODE" in
  quick|thorough) exec "$BIN" run "$ID" "$MODE" ;;
  --replay) exec "$BIN" replay "$ID" "${3:?replay file}" ;;
  *) echo "usage: verif.sh <ID> quick|thorough|--replay <file>"; exit 2 ;;
esac
