#!/bin/bash
# Offline build of the verification harness (MANIFEST.setup_cmd).
set -e
export CARGO_NET_OFFLINE=true
cd /verif/harness
cargo build --release
cargo build --release --no-default-features --target-dir /verif/harness/target/nosec
echo "setup ok"
